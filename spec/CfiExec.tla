------------------------------ MODULE CfiExec ------------------------------
(***************************************************************************)
(* Call-frame-instruction execution (C06, C20): gimli's UnwindContext +    *)
(* UnwindTable (src/read/cfi.rs) as coded, next to a reference semantics   *)
(* written from the DWARF standard (section 6.4) without gimli's storage   *)
(* optimisations.                                                          *)
(*                                                                         *)
(* Layers                                                                  *)
(*  1. values, decoded instructions (shape of `CallFrameInstruction`),     *)
(*     templates and their byte encoding, `.debug_frame` CIE/FDE wrapper   *)
(*  2. the decoder `CallFrameInstruction::parse` / `CallFrameInstructionIter`*)
(*  3. the machine as coded: row stack in a bounded ArrayVec, rule map as  *)
(*     an unordered vec with swap_remove, `initial_rule` tri-state,        *)
(*     `is_initialized`, `save_initial_rules`, `UnwindTable::evaluate`,    *)
(*     `next_row`                                                          *)
(*  4. reference semantics `R*`: rules as a function, an unbounded implicit*)
(*     stack, initial rules as a plain copy                                *)
(*  5. observations, the abstraction map machine -> reference, and the     *)
(*     predicates that state the property                                  *)
(*                                                                         *)
(* All addresses, offsets and sizes are 64-bit little-endian byte tuples   *)
(* (BV.tla); registers, section offsets and lengths are naturals.          *)
(*                                                                         *)
(* Deliberate readings (named here, discussed in notes/C06.md):            *)
(*  - remember/restore_state save and restore the CFA rule and the GNU     *)
(*    args size together with the register rules (whole row), as libgcc's  *)
(*    and gimli's row copy does for the CFA; DWARF says "set of rules for  *)
(*    every register".                                                     *)
(*  - factored offsets and advance deltas are multiplied modulo 2^64.      *)
(*  - location instructions inside a CIE run against location 0 and their  *)
(*    rows are discarded (the standard assigns them no meaning).           *)
(*  - the final row ends at the FDE's end even if the stream advanced past *)
(*    it (start > end possible); no meaning is assigned to such streams.   *)
(***************************************************************************)
EXTENDS Leb, FiniteSets, TLC
LOCAL SX == INSTANCE SequencesExt

Z8 == Zero(8)
(* Non-recursive constructors: SANY gives RECURSIVE operators no constant   *)
(* level, so TLC would re-evaluate every "constant" built with BV!FromNat   *)
(* at each use.  0 <= n < 2^31 for Nat8; -2^31 < n for Int8.                *)
Nat8(n) == <<n % 256, (n \div 256) % 256, (n \div 65536) % 256, (n \div 16777216) % 256, 0, 0, 0, 0>>
Int8(n) == IF n >= 0 THEN Nat8(n)
           ELSE LET k == -(n + 1) IN
                <<255 - (k % 256), 255 - ((k \div 256) % 256), 255 - ((k \div 65536) % 256),
                  255 - ((k \div 16777216) % 256), 255, 255, 255, 255>>

(* 64-bit arithmetic on 16-bit limbs, non-recursive (fast in TLC); checked  *)
(* against BV!Add / BV!Neg / BV!Mul in MCCfiExec's lemma mode.              *)
Limb(a, j) == a[2 * j - 1] + 256 * a[2 * j]
FromLimbs(l1, l2, l3, l4) == <<l1 % 256, l1 \div 256, l2 % 256, l2 \div 256, l3 % 256, l3 \div 256, l4 % 256, l4 \div 256>>
(* a + b + cin: [v |-> low 64 bits, c |-> carry out] *)
AddL(a, b, cin) == LET s1 == Limb(a, 1) + Limb(b, 1) + cin
                       s2 == Limb(a, 2) + Limb(b, 2) + s1 \div 65536
                       s3 == Limb(a, 3) + Limb(b, 3) + s2 \div 65536
                       s4 == Limb(a, 4) + Limb(b, 4) + s3 \div 65536
                   IN [v |-> FromLimbs(s1 % 65536, s2 % 65536, s3 % 65536, s4 % 65536), c |-> s4 \div 65536]
Add8(a, b) == AddL(a, b, 0).v
Neg8(a) == LET s1 == 65535 - Limb(a, 1) + 1
               s2 == 65535 - Limb(a, 2) + s1 \div 65536
               s3 == 65535 - Limb(a, 3) + s2 \div 65536
               s4 == 65535 - Limb(a, 4) + s3 \div 65536
           IN FromLimbs(s1 % 65536, s2 % 65536, s3 % 65536, s4 % 65536)
(* a * k for 0 <= k <= 255 *)
MulK(a, k) == LET p1 == Limb(a, 1) * k
                  p2 == Limb(a, 2) * k + p1 \div 65536
                  p3 == Limb(a, 3) * k + p2 \div 65536
                  p4 == Limb(a, 4) * k + p3 \div 65536
              IN FromLimbs(p1 % 65536, p2 % 65536, p3 % 65536, p4 % 65536)
SmallPos(b) == \A i \in 2..8 : b[i] = 0
SmallNeg(b) == b[1] >= 1 /\ \A i \in 2..8 : b[i] = 255
(* low 64 bits of a * b (= wrapping u64 / i64 product) *)
Mul8(a, b) == IF SmallPos(b) THEN MulK(a, b[1])
              ELSE IF SmallPos(a) THEN MulK(b, a[1])
              ELSE IF SmallNeg(b) THEN Neg8(MulK(a, 256 - b[1]))
              ELSE IF SmallNeg(a) THEN Neg8(MulK(b, 256 - a[1]))
              ELSE Mul(a, b)

RaSignState == 34                       \* crate::AArch64::RA_SIGN_STATE
Unbounded == 1000000                    \* capacity of a Vec-backed storage

(*------------------------------------------------------------------------*)
(* 1. Rules, rows, instructions                                            *)
(*------------------------------------------------------------------------*)
CfaReg(r, off)  == [k |-> "reg", r |-> r, off |-> off]
CfaExpr(eo, el) == [k |-> "expr", eo |-> eo, el |-> el]
DefaultCfa == CfaReg(0, Z8)

RUndefined      == [k |-> "undefined"]
RSameValue      == [k |-> "same_value"]
ROffset(v)      == [k |-> "offset", v |-> v]
RValOffset(v)   == [k |-> "val_offset", v |-> v]
RRegister(r)    == [k |-> "register", r |-> r]
RExpr(eo, el)   == [k |-> "expression", eo |-> eo, el |-> el]
RValExpr(eo, el) == [k |-> "val_expression", eo |-> eo, el |-> el]
RConstant(v)    == [k |-> "constant", v |-> v]

(* Decoded instructions: records [op |-> <variant name of CallFrameInstruction>, ...] *)
(*   SetLoc a | AdvanceLoc d | DefCfa r o | DefCfaSf r f | DefCfaRegister r |          *)
(*   DefCfaOffset o | DefCfaOffsetSf f | DefCfaExpression eo el | Undefined r |        *)
(*   SameValue r | Offset r f | OffsetExtendedSf r f | ValOffset r f | ValOffsetSf r f *)
(*   | Register r s | Expression r eo el | ValExpression r eo el | Restore r |         *)
(*   RememberState | RestoreState | ArgsSize s | NegateRaState | Nop                   *)
(*   Bad err   (the iterator returned Err(err) and emptied its input)                  *)
Bad(e) == [op |-> "Bad", err |-> e]

(* Templates: what the model chooses.  A template is a decoded instruction *)
(* with (a) an optional encoding selector `e` and (b) expression bytes `x` *)
(* instead of a section offset.                                            *)
Sel(t) == IF "e" \in DOMAIN t THEN t.e ELSE ""

(* LEB128 encoders on byte tuples without bit lists (fast in TLC).  MCCfiExec  *)
(* checks them against Leb.tla's EncU / EncS (the writers as coded) on a       *)
(* boundary set.  Digit7(v, k) = bits 7k .. 7k+6 of v.                         *)
Digit7(v, k) == LET o == 7 * k
                    i == (o \div 8) + 1
                    w == v[i] + (IF i + 1 <= Len(v) THEN 256 * v[i + 1] ELSE 0)
                IN (w \div Pow2(o % 8)) % 128
(* digit k with the bits above the width filled with `fill` (0 or 1) *)
Digit7X(v, k, fill) == LET have == 8 * Len(v) - 7 * k IN          \* bits of v in this digit
                       IF have >= 7 THEN Digit7(v, k)
                       ELSE IF have <= 0 THEN 127 * fill
                       ELSE Digit7(v, k) + fill * (128 - Pow2(have))
NDigits(v) == (8 * Len(v) + 6) \div 7
ULeb(v) == LET n  == NDigits(v)
               hi == IF \E k \in 0..(n - 1) : Digit7(v, k) # 0
                     THEN CHOOSE k \in 0..(n - 1) : Digit7(v, k) # 0 /\ \A j \in (k + 1)..(n - 1) : Digit7(v, j) = 0
                     ELSE 0
           IN [k \in 1..(hi + 1) |-> Digit7(v, k - 1) + (IF k <= hi THEN 128 ELSE 0)]
(* signed: stop at the first digit k such that all higher digits are pure sign *)
(* and bit 6 of digit k equals the sign                                        *)
SLeb(v) == LET n  == NDigits(v)
               sg == IF IsNeg(v) THEN 1 ELSE 0
               D(k) == Digit7X(v, k, sg)
               done(k) == /\ \A j \in (k + 1)..(n - 1) : D(j) = 127 * sg
                          /\ (D(k) \div 64) = sg
               hi == CHOOSE k \in 0..(n - 1) : done(k) /\ \A j \in 0..(k - 1) : ~done(j)
           IN [k \in 1..(hi + 1) |-> D(k - 1) + (IF k <= hi THEN 128 ELSE 0)]
ULebN(n) == EncU(Nat8(n))
Lay(v, le) == IF le THEN v ELSE Reverse(v)

IsExprOp(op) == op \in {"DefCfaExpression", "Expression", "ValExpression"}

(* bytes before the expression payload of an expression-carrying instruction *)
ExprHead(t) ==
    IF t.op = "DefCfaExpression" THEN <<15>> \o ULebN(Len(t.x))
    ELSE (IF t.op = "Expression" THEN <<16>> ELSE <<22>>) \o ULebN(t.r) \o ULebN(Len(t.x))

EncIns(t, asz, le) ==
    CASE t.op = "Nop"             -> <<0>>
      [] t.op = "SetLoc"          -> <<1>> \o Lay(Trunc(t.a, asz), le)
      [] t.op = "AdvanceLoc"      ->
            (CASE Sel(t) = "loc1" -> <<2, t.d[1]>>
               [] Sel(t) = "loc2" -> <<3>> \o Lay(Trunc(t.d, 2), le)
               [] Sel(t) = "loc4" -> <<4>> \o Lay(Trunc(t.d, 4), le)
               [] OTHER           -> <<64 + t.d[1]>>)            \* d < 64
      [] t.op = "Offset"          -> IF Sel(t) = "ext" THEN <<5>> \o ULebN(t.r) \o ULeb(t.f)
                                     ELSE <<128 + t.r>> \o ULeb(t.f)   \* r < 64
      [] t.op = "Restore"         -> IF Sel(t) = "ext" THEN <<6>> \o ULebN(t.r) ELSE <<192 + t.r>>
      [] t.op = "Undefined"       -> <<7>> \o ULebN(t.r)
      [] t.op = "SameValue"       -> <<8>> \o ULebN(t.r)
      [] t.op = "Register"        -> <<9>> \o ULebN(t.r) \o ULebN(t.s)
      [] t.op = "RememberState"   -> <<10>>
      [] t.op = "RestoreState"    -> <<11>>
      [] t.op = "DefCfa"          -> <<12>> \o ULebN(t.r) \o ULeb(t.o)
      [] t.op = "DefCfaRegister"  -> <<13>> \o ULebN(t.r)
      [] t.op = "DefCfaOffset"    -> <<14>> \o ULeb(t.o)
      [] IsExprOp(t.op)           -> ExprHead(t) \o t.x
      [] t.op = "OffsetExtendedSf" -> <<17>> \o ULebN(t.r) \o SLeb(t.f)
      [] t.op = "DefCfaSf"        -> <<18>> \o ULebN(t.r) \o SLeb(t.f)
      [] t.op = "DefCfaOffsetSf"  -> <<19>> \o SLeb(t.f)
      [] t.op = "ValOffset"       -> <<20>> \o ULebN(t.r) \o ULeb(t.f)
      [] t.op = "ValOffsetSf"     -> <<21>> \o ULebN(t.r) \o SLeb(t.f)
      [] t.op = "ArgsSize"        -> <<46>> \o ULeb(t.s)
      [] t.op = "NegateRaState"   -> <<45>>
      [] t.op = "Raw"             -> t.x                         \* arbitrary bytes (decoder models)

(* The decoded instruction a template stands for when its first byte is at *)
(* section offset `off`.                                                   *)
Decoded(t, off) ==
    IF IsExprOp(t.op) THEN
        LET eo == off + Len(ExprHead(t)) IN
        IF t.op = "DefCfaExpression" THEN [op |-> t.op, eo |-> eo, el |-> Len(t.x)]
        ELSE [op |-> t.op, r |-> t.r, eo |-> eo, el |-> Len(t.x)]
    ELSE [f \in DOMAIN t \ {"e"} |-> t[f]]

RECURSIVE EncProg(_, _, _)
EncProg(ts, asz, le) == IF ts = <<>> THEN <<>> ELSE EncIns(Head(ts), asz, le) \o EncProg(Tail(ts), asz, le)

RECURSIVE DecodedProg(_, _, _, _)
DecodedProg(ts, off, asz, le) ==
    IF ts = <<>> THEN <<>>
    ELSE <<Decoded(Head(ts), off)>> \o DecodedProg(Tail(ts), off + Len(EncIns(Head(ts), asz, le)), asz, le)

(*------------------------------------------------------------------------*)
(* `.debug_frame` wrapper: one CIE at offset 0 followed by one FDE.        *)
(* cfg = [asz, caf (BV8, unsigned), daf (BV8, signed), ver \in {1,3,4},    *)
(*        le, ra, start (BV8), range (BV8)]                                *)
(*------------------------------------------------------------------------*)
U32(n, le) == Lay(Trunc(Nat8(n), 4), le)

CieBody(cfg) ==
    Lay(<<255, 255, 255, 255>>, cfg.le) \o <<cfg.ver, 0>>
    \o (IF cfg.ver = 4 THEN <<cfg.asz, 0>> ELSE <<>>)
    \o ULeb(cfg.caf) \o SLeb(cfg.daf)
    \o (IF cfg.ver = 1 THEN <<cfg.ra>> ELSE ULebN(cfg.ra))
CieInsOff(cfg) == 4 + Len(CieBody(cfg))
FdeHead(cfg, cieoff) == U32(cieoff, cfg.le) \o Lay(Trunc(cfg.start, cfg.asz), cfg.le)
                        \o Lay(Trunc(cfg.range, cfg.asz), cfg.le)
(* section = CIE at offset 0 ++ FDE, given the CIE header fields `head` =   *)
(* CieBody(cfg) and the two instruction byte strings                        *)
SectionWith(head, cfg, cieb, fdeb) ==
    U32(Len(head) + Len(cieb), cfg.le) \o head \o cieb
    \o U32(4 + 2 * cfg.asz + Len(fdeb), cfg.le) \o FdeHead(cfg, 0) \o fdeb
FdeOffWith(head, cieb)    == 4 + Len(head) + Len(cieb)
FdeInsOffWith(head, cfg, cieb) == FdeOffWith(head, cieb) + 4 + 4 + 2 * cfg.asz

EncCie(cfg, cie) == LET b == CieBody(cfg) \o EncProg(cie, cfg.asz, cfg.le) IN U32(Len(b), cfg.le) \o b
EncFde(cfg, cieoff, fde) == LET b == FdeHead(cfg, cieoff) \o EncProg(fde, cfg.asz, cfg.le) IN U32(Len(b), cfg.le) \o b
FdeOff(cfg, cie)    == FdeOffWith(CieBody(cfg), EncProg(cie, cfg.asz, cfg.le))
FdeInsOff(cfg, cie) == FdeOff(cfg, cie) + 4 + 4 + 2 * cfg.asz
EncSection(cfg, cie, fde) == SectionWith(CieBody(cfg), cfg, EncProg(cie, cfg.asz, cfg.le), EncProg(fde, cfg.asz, cfg.le))

FdeEnd(cfg) == ZExt(Trunc(Add8(cfg.start, cfg.range), cfg.asz), 8)    \* wrapping_add_sized

(*------------------------------------------------------------------------*)
(* 2. Decoder: CallFrameInstruction::parse over bytes b from index p       *)
(* (1-based), section offset of b[1] = base.  Result [ok, ins, p] where    *)
(* ins may be Bad(err).  LEB128 readers are Leb.tla's machines as coded.   *)
(*------------------------------------------------------------------------*)
(* Fast equivalents of Leb.tla's RunU / RunS machines (checked against them in  *)
(* MCCfiExec on a boundary set): scan at most 10 bytes, the 10th must be 0/1    *)
(* (unsigned) or 0/0x7f (signed).                                              *)
RECURSIVE ScanLeb(_, _, _, _)
ScanLeb(b, p, k, signed) ==
    IF p + k > Len(b) THEN [st |-> "eof"]
    ELSE IF k = 9 /\ b[p + k] \notin (IF signed THEN {0, 127} ELSE {0, 1}) THEN [st |-> "bad"]
    ELSE IF b[p + k] < 128 THEN [st |-> "ok", n |-> k + 1]
    ELSE ScanLeb(b, p, k + 1, signed)
LebValue(b, p, n, fill) ==
    LET D(k) == IF k < n THEN b[p + k] % 128 ELSE fill IN
    [j \in 1..8 |-> LET o == 8 * (j - 1) IN ((D(o \div 7) + 128 * D((o \div 7) + 1)) \div Pow2(o % 7)) % 256]
LebU(b, p) == LET t == ScanLeb(b, p, 0, FALSE) IN
              IF t.st = "ok" THEN [ok |-> TRUE, v |-> LebValue(b, p, t.n, 0), p |-> p + t.n]
              ELSE [ok |-> FALSE, err |-> IF t.st = "bad" THEN "BadUnsignedLeb128" ELSE "UnexpectedEof"]
LebS(b, p) == LET t == ScanLeb(b, p, 0, TRUE) IN
              IF t.st = "ok" THEN [ok |-> TRUE, p |-> p + t.n,
                                   v |-> LebValue(b, p, t.n, IF b[p + t.n - 1] % 128 >= 64 THEN 127 ELSE 0)]
              ELSE [ok |-> FALSE, err |-> IF t.st = "bad" THEN "BadSignedLeb128" ELSE "UnexpectedEof"]
(* the same through Leb.tla's machines as coded *)
LebUSlow(b, p) == LET m == Fin(RunU(MInit, SubSeq(b, p, Len(b)), 1)) IN
              IF m.st = "ok" THEN [ok |-> TRUE, v |-> m.res, p |-> p + m.n]
              ELSE [ok |-> FALSE, err |-> IF m.st = "bad" THEN "BadUnsignedLeb128" ELSE "UnexpectedEof"]
LebSSlow(b, p) == LET m == Fin(RunS(MInit, SubSeq(b, p, Len(b)), 1)) IN
              IF m.st = "ok" THEN [ok |-> TRUE, p |-> p + m.n, v |-> m.res]
              ELSE [ok |-> FALSE, err |-> IF m.st = "bad" THEN "BadSignedLeb128" ELSE "UnexpectedEof"]
(* read_uleb128().and_then(Register::from_u64) *)
LebReg(b, p) == LET u == LebU(b, p) IN
                IF ~u.ok THEN u
                ELSE IF \E i \in 3..8 : u.v[i] # 0 THEN [ok |-> FALSE, err |-> "UnsupportedRegister"]
                ELSE [ok |-> TRUE, v |-> u.v[1] + 256 * u.v[2], p |-> u.p]
(* a length that fits the model's naturals (expression lengths) *)
LebLen(b, p) == LET u == LebU(b, p) IN
                IF ~u.ok THEN u
                ELSE IF ~FitsNat(u.v) THEN [ok |-> FALSE, err |-> "UnexpectedEof"]   \* skip() beyond any buffer
                ELSE [ok |-> TRUE, v |-> ToNat(u.v), p |-> u.p]
Fixed(b, p, n, le) == IF p + n - 1 > Len(b) THEN [ok |-> FALSE, err |-> "UnexpectedEof"]
                      ELSE [ok |-> TRUE, v |-> ZExt(Lay(SubSeq(b, p, p + n - 1), le), 8), p |-> p + n]

(*------------------------------------------------------------------------*)
(* DW_EH_PE pointer encodings (parse_encoded_pointer / parse_encoded_value *)
(* / Pointer).  pe = [on |-> FALSE] (.debug_frame, CIE instructions) or    *)
(* [on |-> TRUE, enc, section, text, data] with optional base addresses    *)
(* [some |-> FALSE] | [some |-> TRUE, v |-> BV8] (BaseAddresses.eh_frame). *)
(*------------------------------------------------------------------------*)
NoPE == [on |-> FALSE]
NoBase == [some |-> FALSE]
SomeBase(v) == [some |-> TRUE, v |-> v]
EhFormat(enc) == enc % 16
EhApp(enc) == (enc \div 16) % 8
EhIndirect(enc) == enc >= 128
EhValid(enc) == enc = 255 \/ (EhFormat(enc) \in {0, 1, 2, 3, 4, 9, 10, 11, 12} /\ EhApp(enc) \in {0, 1, 2, 3, 4, 5})
WrapSized(v, asz) == ZExt(Trunc(v, asz), 8)                       \* & ones_sized(asz)
FixedS(b, p, n, le) == IF p + n - 1 > Len(b) THEN [ok |-> FALSE, err |-> "UnexpectedEof"]
                       ELSE [ok |-> TRUE, v |-> SExt(Lay(SubSeq(b, p, p + n - 1), le), 8), p |-> p + n]
(* parse_encoded_value: the format nibble only; signed formats sign-extend to 64 bits *)
EncodedValue(fmt, b, p, asz, le) ==
    CASE fmt = 0  -> IF asz \notin {1, 2, 4, 8} THEN [ok |-> FALSE, err |-> "UnsupportedAddressSize"] ELSE Fixed(b, p, asz, le)
      [] fmt = 1  -> LebU(b, p)
      [] fmt = 2  -> Fixed(b, p, 2, le)
      [] fmt = 3  -> Fixed(b, p, 4, le)
      [] fmt = 4  -> Fixed(b, p, 8, le)
      [] fmt = 9  -> LebS(b, p)
      [] fmt = 10 -> FixedS(b, p, 2, le)
      [] fmt = 11 -> FixedS(b, p, 4, le)
      [] fmt = 12 -> FixedS(b, p, 8, le)
(* parse_encoded_pointer at index p of b (section offset of b[1] = base); func = optional *)
(* function base.  Result [ok, v, indirect, p] or [ok |-> FALSE, err].  The base is       *)
(* resolved (and a missing one reported) before the value is read.                        *)
EncodedPointer(pe, b, p, base, asz, le, func) ==
    IF ~EhValid(pe.enc) THEN [ok |-> FALSE, err |-> "UnknownPointerEncoding"]
    ELSE IF pe.enc = 255 THEN [ok |-> FALSE, err |-> "CannotParseOmitPointerEncoding"]
    ELSE LET app == EhApp(pe.enc)
             bs  == CASE app = 0 -> SomeBase(Z8)
                      [] app = 1 -> IF pe.section.some THEN SomeBase(WrapSized(Add8(pe.section.v, Nat8(base + p - 1)), asz))
                                    ELSE [some |-> FALSE, err |-> "PcRelativePointerButSectionBaseIsUndefined"]
                      [] app = 2 -> IF pe.text.some THEN pe.text ELSE [some |-> FALSE, err |-> "TextRelativePointerButTextBaseIsUndefined"]
                      [] app = 3 -> IF pe.data.some THEN pe.data ELSE [some |-> FALSE, err |-> "DataRelativePointerButDataBaseIsUndefined"]
                      [] app = 4 -> IF func.some THEN func ELSE [some |-> FALSE, err |-> "FuncRelativePointerInBadContext"]
                      [] app = 5 -> [some |-> FALSE, err |-> "UnsupportedPointerEncoding"] IN
         IF ~bs.some THEN [ok |-> FALSE, err |-> bs.err]
         ELSE LET v == EncodedValue(EhFormat(pe.enc), b, p, asz, le) IN
              IF ~v.ok THEN [ok |-> FALSE, err |-> v.err]
              ELSE [ok |-> TRUE, v |-> WrapSized(Add8(bs.v, v.v), asz), indirect |-> EhIndirect(pe.enc), p |-> v.p]

PBad(e)     == [ins |-> Bad(e), p |-> 0]
POk(i, p)   == [ins |-> i, p |-> p]

(* one register operand *)
P1Reg(b, p, op) == LET a == LebReg(b, p) IN
                   IF ~a.ok THEN PBad(a.err) ELSE POk([op |-> op, r |-> a.v], a.p)
(* register + unsigned / signed LEB *)
PRegU(b, p, op, fld) == LET a == LebReg(b, p) IN
                        IF ~a.ok THEN PBad(a.err)
                        ELSE LET c == LebU(b, a.p) IN
                             IF ~c.ok THEN PBad(c.err)
                             ELSE POk(IF fld = "o" THEN [op |-> op, r |-> a.v, o |-> c.v]
                                      ELSE [op |-> op, r |-> a.v, f |-> c.v], c.p)
PRegS(b, p, op) == LET a == LebReg(b, p) IN
                   IF ~a.ok THEN PBad(a.err)
                   ELSE LET c == LebS(b, a.p) IN
                        IF ~c.ok THEN PBad(c.err) ELSE POk([op |-> op, r |-> a.v, f |-> c.v], c.p)
(* expression payload: length, offset_from(section), skip(length) *)
PExpr(b, p, base, op, hasreg, reg) ==
    LET n == LebLen(b, p) IN
    IF ~n.ok THEN PBad(n.err)
    ELSE IF n.p + n.v - 1 > Len(b) THEN PBad("UnexpectedEof")
    ELSE POk(IF hasreg THEN [op |-> op, r |-> reg, eo |-> base + n.p - 1, el |-> n.v]
             ELSE [op |-> op, eo |-> base + n.p - 1, el |-> n.v], n.p + n.v)

ParseOneX(b, p, base, asz, le, vendor, pe) ==
    LET c  == b[p]
        hi == c \div 64
        lo == c % 64
        q  == p + 1 IN
    IF hi = 1 THEN POk([op |-> "AdvanceLoc", d |-> Nat8(lo)], q)
    ELSE IF hi = 2 THEN
        LET u == LebU(b, q) IN IF ~u.ok THEN PBad(u.err) ELSE POk([op |-> "Offset", r |-> lo, f |-> u.v], u.p)
    ELSE IF hi = 3 THEN POk([op |-> "Restore", r |-> lo], q)
    ELSE CASE c = 0  -> POk([op |-> "Nop"], q)
           [] c = 1  -> IF pe.on THEN      \* parse_encoded_pointer(encoding, ..)?.direct()?  (func_base = None)
                             LET a == EncodedPointer(pe, b, q, base, asz, le, NoBase) IN
                             IF ~a.ok THEN PBad(a.err)
                             ELSE IF a.indirect THEN PBad("UnsupportedIndirectPointer")
                             ELSE POk([op |-> "SetLoc", a |-> a.v], a.p)
                        ELSE IF asz \notin {1, 2, 4, 8} THEN PBad("UnsupportedAddressSize")
                        ELSE LET a == Fixed(b, q, asz, le) IN
                             IF ~a.ok THEN PBad(a.err) ELSE POk([op |-> "SetLoc", a |-> a.v], a.p)
           [] c = 2  -> LET a == Fixed(b, q, 1, le) IN IF ~a.ok THEN PBad(a.err) ELSE POk([op |-> "AdvanceLoc", d |-> a.v], a.p)
           [] c = 3  -> LET a == Fixed(b, q, 2, le) IN IF ~a.ok THEN PBad(a.err) ELSE POk([op |-> "AdvanceLoc", d |-> a.v], a.p)
           [] c = 4  -> LET a == Fixed(b, q, 4, le) IN IF ~a.ok THEN PBad(a.err) ELSE POk([op |-> "AdvanceLoc", d |-> a.v], a.p)
           [] c = 5  -> PRegU(b, q, "Offset", "f")
           [] c = 6  -> P1Reg(b, q, "Restore")
           [] c = 7  -> P1Reg(b, q, "Undefined")
           [] c = 8  -> P1Reg(b, q, "SameValue")
           [] c = 9  -> LET a == LebReg(b, q) IN
                        IF ~a.ok THEN PBad(a.err)
                        ELSE LET s == LebReg(b, a.p) IN
                             IF ~s.ok THEN PBad(s.err) ELSE POk([op |-> "Register", r |-> a.v, s |-> s.v], s.p)
           [] c = 10 -> POk([op |-> "RememberState"], q)
           [] c = 11 -> POk([op |-> "RestoreState"], q)
           [] c = 12 -> PRegU(b, q, "DefCfa", "o")
           [] c = 13 -> P1Reg(b, q, "DefCfaRegister")
           [] c = 14 -> LET u == LebU(b, q) IN IF ~u.ok THEN PBad(u.err) ELSE POk([op |-> "DefCfaOffset", o |-> u.v], u.p)
           [] c = 15 -> PExpr(b, q, base, "DefCfaExpression", FALSE, 0)
           [] c = 16 -> LET a == LebReg(b, q) IN IF ~a.ok THEN PBad(a.err) ELSE PExpr(b, a.p, base, "Expression", TRUE, a.v)
           [] c = 17 -> PRegS(b, q, "OffsetExtendedSf")
           [] c = 18 -> PRegS(b, q, "DefCfaSf")
           [] c = 19 -> LET u == LebS(b, q) IN IF ~u.ok THEN PBad(u.err) ELSE POk([op |-> "DefCfaOffsetSf", f |-> u.v], u.p)
           [] c = 20 -> PRegU(b, q, "ValOffset", "f")
           [] c = 21 -> PRegS(b, q, "ValOffsetSf")
           [] c = 22 -> LET a == LebReg(b, q) IN IF ~a.ok THEN PBad(a.err) ELSE PExpr(b, a.p, base, "ValExpression", TRUE, a.v)
           [] c = 46 -> LET u == LebU(b, q) IN IF ~u.ok THEN PBad(u.err) ELSE POk([op |-> "ArgsSize", s |-> u.v], u.p)
           [] c = 45 /\ vendor = "aarch64" -> POk([op |-> "NegateRaState"], q)
           [] OTHER  -> PBad("UnknownCallFrameInstruction")

ParseOne(b, p, base, asz, le, vendor) == ParseOneX(b, p, base, asz, le, vendor, NoPE)

(* CallFrameInstructionIter: the whole lazily decoded stream; a parse      *)
(* error empties the input, so it is the last element.                     *)
RECURSIVE DecodeFromX(_, _, _, _, _, _, _)
DecodeFromX(b, p, base, asz, le, vendor, pe) ==
    IF p > Len(b) THEN <<>>
    ELSE LET r == ParseOneX(b, p, base, asz, le, vendor, pe) IN
         IF r.ins.op = "Bad" THEN <<r.ins>>
         ELSE <<r.ins>> \o DecodeFromX(b, r.p, base, asz, le, vendor, pe)
DecodeFrom(b, p, base, asz, le, vendor) == DecodeFromX(b, p, base, asz, le, vendor, NoPE)
DecodeAll(b, base, asz, le, vendor) == DecodeFrom(b, 1, base, asz, le, vendor)

(*------------------------------------------------------------------------*)
(* `.eh_frame`: one version-1 CIE with augmentation "zR" (FDE pointer      *)
(* encoding `enc`) at offset 0 followed by one FDE.  The FDE's initial     *)
(* location, address range and every DW_CFA_set_loc operand are written in *)
(* the encoding's format (`EncRaw`) from raw 64-bit values.                *)
(*------------------------------------------------------------------------*)
EncRaw(fmt, v, asz, le) ==
    CASE fmt = 0 -> Lay(Trunc(v, asz), le)
      [] fmt = 1 -> ULeb(v)
      [] fmt \in {2, 10} -> Lay(Trunc(v, 2), le)
      [] fmt \in {3, 11} -> Lay(Trunc(v, 4), le)
      [] fmt \in {4, 12} -> Lay(Trunc(v, 8), le)
      [] fmt = 9 -> SLeb(v)
      [] OTHER -> <<>>
EhCieHead(cfg, enc) == Lay(<<0, 0, 0, 0>>, cfg.le) \o <<1, 122, 82, 0>> \o ULeb(cfg.caf) \o SLeb(cfg.daf) \o <<cfg.ra>> \o <<1, enc>>
EhCieInsOff(cfg, enc) == 4 + Len(EhCieHead(cfg, enc))
(* e = [enc, init, range (raw values)], cieb / fdeb = instruction bytes *)
EhSection(cfg, e, cieb, fdeb) ==
    LET cb == EhCieHead(cfg, e.enc) \o cieb
        fo == 4 + Len(cb)
        fb == U32(fo + 4, cfg.le) \o EncRaw(EhFormat(e.enc), e.init, cfg.asz, cfg.le)
              \o EncRaw(EhFormat(e.enc), e.range, cfg.asz, cfg.le) \o <<0>> \o fdeb IN
    U32(Len(cb), cfg.le) \o cb \o U32(Len(fb), cfg.le) \o fb
EhFdeOff(cfg, e, cieb) == 4 + Len(EhCieHead(cfg, e.enc)) + Len(cieb)
(* FrameDescriptionEntry::parse_rest over the section bytes as coded: the CIE's 'R' byte  *)
(* must be a valid encoding (parse_pointer_encoding); initial location =                  *)
(* parse_encoded_pointer(..).pointer() (indirection ignored, no function base); range =   *)
(* parse_encoded_value; then the augmentation data length.                                *)
EhFdeHeader(sec, fdeoff, pe, asz, le) ==
    IF ~EhValid(pe.enc) THEN [ok |-> FALSE, err |-> "UnknownPointerEncoding"]
    ELSE LET i == EncodedPointer(pe, sec, fdeoff + 9, 0, asz, le, NoBase) IN
         IF ~i.ok THEN i
         ELSE LET r == EncodedValue(EhFormat(pe.enc), sec, i.p, asz, le) IN
              IF ~r.ok THEN r
              ELSE [ok |-> TRUE, start |-> i.v, range |-> r.v, ins |-> r.p + 1]     \* 1-based index of the first instruction

(*------------------------------------------------------------------------*)
(* 3. The machine as coded                                                 *)
(*------------------------------------------------------------------------*)
DefaultRow == [start |-> Z8, end |-> Z8, args |-> Z8, cfa |-> DefaultCfa, rules |-> <<>>]

(* RegisterRuleMap over ArrayVec: a sequence of <<register, rule>> *)
RECURSIVE ScanIdx(_, _, _)
ScanIdx(rs, reg, i) == IF i > Len(rs) THEN 0 ELSE IF rs[i][1] = reg THEN i ELSE ScanIdx(rs, reg, i + 1)
FirstIdx(rs, reg) == ScanIdx(rs, reg, 1)             \* `find`: the first match, 0 if none
MapGet(rs, reg) == LET i == FirstIdx(rs, reg) IN
                   IF i = 0 THEN [some |-> FALSE] ELSE [some |-> TRUE, rule |-> rs[i][2]]
(* set: overwrite in place, else try_push -> TooManyRegisterRules *)
MapSet(rs, reg, rule, cap) ==
    LET i == FirstIdx(rs, reg) IN
    IF i # 0 THEN [ok |-> TRUE, rs |-> [rs EXCEPT ![i] = <<reg, rule>>]]
    ELSE IF Len(rs) >= cap THEN [ok |-> FALSE]
    ELSE [ok |-> TRUE, rs |-> Append(rs, <<reg, rule>>)]
(* clear: swap_remove of the first match *)
MapClear(rs, reg) ==
    LET i == FirstIdx(rs, reg)
        n == Len(rs) IN
    IF i = 0 THEN rs ELSE [j \in 1..(n - 1) |-> IF j = i THEN rs[n] ELSE rs[j]]

(* Machine state: context fields stack / ir / init, table fields caf / daf *)
(* / asz / ns (next_start_address) / le (last_end_address) / rl            *)
(* (returned_last_row), ins (remaining decoded instructions), capacities,  *)
(* control st \in {"run","row","none","err"}, err, and out = rows returned.*)
IrNone == [k |-> "None"]                 \* unset, or "initial rules are in stack[0]"
IrSomeNone == [k |-> "SomeNone"]         \* all default
IrSome(reg, rule) == [k |-> "SomeSome", reg |-> reg, rule |-> rule]

NewCtx(maxrows, maxrules) ==             \* UnwindContext::new_in (incl. reset)
    [stack |-> <<DefaultRow>>, ir |-> IrNone, init |-> FALSE,
     caf |-> Z8, daf |-> Z8, asz |-> 8, ns |-> Z8, le |-> Z8, rl |-> FALSE, ins |-> <<>>,
     maxrows |-> maxrows, maxrules |-> maxrules, st |-> "run", err |-> "", out |-> <<>>]

Reset(m) == [m EXCEPT !.stack = <<DefaultRow>>, !.ir = IrNone, !.init = FALSE]

Top(m) == m.stack[Len(m.stack)]
SetTop(m, row) == [m EXCEPT !.stack[Len(m.stack)] = row]
Fail(m, e) == [m EXCEPT !.st = "err", !.err = e]

SetRule(m, reg, rule) ==
    LET s == MapSet(Top(m).rules, reg, rule, m.maxrules) IN
    IF s.ok THEN SetTop(m, [Top(m) EXCEPT !.rules = s.rs]) ELSE Fail(m, "TooManyRegisterRules")
ClearRule(m, reg) == SetTop(m, [Top(m) EXCEPT !.rules = MapClear(@, reg)])

(* get_initial_rule: [known, some, rule] *)
GetInitialRule(m, reg) ==
    IF ~m.init THEN [known |-> FALSE]
    ELSE IF m.ir.k = "None" THEN
             LET g == MapGet(m.stack[1].rules, reg) IN
             IF g.some THEN [known |-> TRUE, some |-> TRUE, rule |-> g.rule] ELSE [known |-> TRUE, some |-> FALSE]
    ELSE IF m.ir.k = "SomeSome" /\ m.ir.reg = reg THEN [known |-> TRUE, some |-> TRUE, rule |-> m.ir.rule]
    ELSE [known |-> TRUE, some |-> FALSE]

PushRow(m) == IF Len(m.stack) >= m.maxrows THEN Fail(m, "StackFull")
              ELSE [m EXCEPT !.stack = Append(@, Top(m))]
PopRow(m) == LET min == IF m.init /\ m.ir.k = "None" THEN 2 ELSE 1 IN
             IF Len(m.stack) <= min THEN Fail(m, "PopWithEmptyStack")
             ELSE [m EXCEPT !.stack = SubSeq(@, 1, Len(@) - 1)]

SaveInitialRules(m) ==
    LET rs == Top(m).rules IN
    IF Len(rs) = 0 THEN [m EXCEPT !.ir = IrSomeNone, !.init = TRUE]
    ELSE IF Len(rs) = 1 THEN [m EXCEPT !.ir = IrSome(rs[1][1], rs[1][2]), !.init = TRUE]
    ELSE IF Len(m.stack) >= m.maxrows THEN Fail(m, "StackFull")          \* try_insert(0, ..)
    ELSE [m EXCEPT !.stack = <<Top(m)>> \o @, !.ir = IrNone, !.init = TRUE]

(* u64::add_sized: checked add, then the address-size mask *)
AddSized(a, d, asz) ==
    LET s == AddL(a, d, 0) IN
    IF s.c # 0 \/ \E i \in (asz + 1)..8 : s.v[i] # 0 THEN [ok |-> FALSE] ELSE [ok |-> TRUE, v |-> s.v]

Factored(f, daf) == Mul8(f, daf)          \* Wrapping<i64> product = low 64 bits

(* UnwindTable::evaluate.  Result st: "run" = Ok(false), "row" = Ok(true), "err". *)
Eval(m, i) ==
    LET row == Top(m)
        cfaIsReg == row.cfa.k = "reg" IN
    CASE i.op = "SetLoc" ->
            IF ULt(i.a, row.start) THEN Fail(m, "InvalidCfiSetLoc")
            ELSE [SetTop(m, [row EXCEPT !.end = i.a]) EXCEPT !.ns = i.a, !.st = "row"]
      [] i.op = "AdvanceLoc" ->
            LET s == AddSized(row.start, Mul8(i.d, m.caf), m.asz) IN
            IF ~s.ok THEN Fail(m, "AddressOverflow")
            ELSE [SetTop(m, [row EXCEPT !.end = s.v]) EXCEPT !.ns = s.v, !.st = "row"]
      [] i.op = "DefCfa"    -> SetTop(m, [row EXCEPT !.cfa = CfaReg(i.r, i.o)])
      [] i.op = "DefCfaSf"  -> SetTop(m, [row EXCEPT !.cfa = CfaReg(i.r, Factored(i.f, m.daf))])
      [] i.op = "DefCfaRegister" ->
            IF cfaIsReg THEN SetTop(m, [row EXCEPT !.cfa.r = i.r]) ELSE Fail(m, "CfiInstructionInInvalidContext")
      [] i.op = "DefCfaOffset" ->
            IF cfaIsReg THEN SetTop(m, [row EXCEPT !.cfa.off = i.o]) ELSE Fail(m, "CfiInstructionInInvalidContext")
      [] i.op = "DefCfaOffsetSf" ->
            IF cfaIsReg THEN SetTop(m, [row EXCEPT !.cfa.off = Factored(i.f, m.daf)])
            ELSE Fail(m, "CfiInstructionInInvalidContext")
      [] i.op = "DefCfaExpression" -> SetTop(m, [row EXCEPT !.cfa = CfaExpr(i.eo, i.el)])
      [] i.op = "Undefined" -> SetRule(m, i.r, RUndefined)
      [] i.op = "SameValue" -> SetRule(m, i.r, RSameValue)
      [] i.op \in {"Offset", "OffsetExtendedSf"}  -> SetRule(m, i.r, ROffset(Factored(i.f, m.daf)))
      [] i.op \in {"ValOffset", "ValOffsetSf"}    -> SetRule(m, i.r, RValOffset(Factored(i.f, m.daf)))
      [] i.op = "Register"      -> SetRule(m, i.r, RRegister(i.s))
      [] i.op = "Expression"    -> SetRule(m, i.r, RExpr(i.eo, i.el))
      [] i.op = "ValExpression" -> SetRule(m, i.r, RValExpr(i.eo, i.el))
      [] i.op = "Restore" ->
            LET g == GetInitialRule(m, i.r) IN
            IF ~g.known THEN Fail(m, "CfiInstructionInInvalidContext")
            ELSE IF ~g.some THEN ClearRule(m, i.r)
            ELSE SetRule(m, i.r, g.rule)
      [] i.op = "RememberState" -> PushRow(m)
      [] i.op = "RestoreState" ->
            LET p == PopRow(m) IN
            IF p.st = "err" THEN p ELSE SetTop(p, [Top(p) EXCEPT !.start = row.start])
      [] i.op = "ArgsSize" -> SetTop(m, [row EXCEPT !.args = i.s])
      [] i.op = "NegateRaState" ->
            LET g == MapGet(row.rules, RaSignState) IN
            IF ~g.some THEN SetRule(m, RaSignState, RConstant(BXor(Z8, One(8))))
            ELSE IF g.rule.k = "constant" THEN SetRule(m, RaSignState, RConstant(BXor(g.rule.v, One(8))))
            ELSE Fail(m, "CfiInstructionInInvalidContext")
      [] i.op = "Nop" -> m

(* Projection of a row to its observable content (rules as a set of pairs) *)
RuleSet(rs) == {rs[i] : i \in DOMAIN rs}
ProjRow(row) == [start |-> row.start, end |-> row.end, args |-> row.args, cfa |-> row.cfa, rules |-> RuleSet(row.rules)]

(* next_row: set_start_address(next_start_address), then the loop *)
Begin(m) == [SetTop(m, [Top(m) EXCEPT !.start = m.ns]) EXCEPT !.st = "run"]

RECURSIVE Loop(_)
Loop(m) ==
    IF m.ins = <<>> THEN
        IF m.rl THEN [m EXCEPT !.st = "none"]
        ELSE [SetTop(m, [Top(m) EXCEPT !.end = m.le]) EXCEPT !.rl = TRUE, !.st = "row"]
    ELSE LET i  == Head(m.ins)
             m0 == [m EXCEPT !.ins = Tail(@)] IN
         IF i.op = "Bad" THEN [m0 EXCEPT !.ins = <<>>, !.st = "err", !.err = i.err]
         ELSE LET m1 == Eval(m0, i) IN IF m1.st = "run" THEN Loop(m1) ELSE m1
(* one public call; afterwards st \in {"row","none","err"}; the row is Top *)
NextRow(m) == Loop(Begin(m))

(* Driving the table the way every caller does: next_row until None / Err, *)
(* collecting the rows.                                                    *)
RECURSIVE Drain(_)
Drain(m) == LET n == NextRow(m) IN
            IF n.st = "row" THEN Drain([n EXCEPT !.out = Append(@, ProjRow(Top(n)))]) ELSE n

(* The same, incrementally: consume the pending instructions but do not    *)
(* take the "input exhausted" branch yet.  Consume(m with more ins) after  *)
(* Consume is the same as Consume on the concatenation.                    *)
Emit(m) == [m EXCEPT !.out = Append(@, ProjRow(Top(m)))]
RECURSIVE Consume(_)
Consume(m) ==
    IF m.st # "run" \/ m.ins = <<>> THEN m
    ELSE LET i  == Head(m.ins)
             m0 == [m EXCEPT !.ins = Tail(@)] IN
         IF i.op = "Bad" THEN [m0 EXCEPT !.ins = <<>>, !.st = "err", !.err = i.err]
         ELSE LET m1 == Eval(m0, i) IN
              IF m1.st = "row" THEN Consume(Begin(Emit(m1))) ELSE Consume(m1)
(* input exhausted: final row, then None *)
Finish(m) == IF m.st # "run" THEN m
             ELSE [Emit(SetTop(m, [Top(m) EXCEPT !.end = m.le])) EXCEPT !.rl = TRUE, !.st = "none"]

(* UnwindTable::new_for_cie / new_for_fde on context m *)
TableForCie(m, cfg, ins) == [m EXCEPT !.caf = cfg.caf, !.daf = cfg.daf, !.asz = cfg.asz, !.ns = Z8, !.le = Z8,
                                      !.rl = FALSE, !.ins = ins, !.st = "run", !.err = "", !.out = <<>>]
TableForFde(m, cfg, ins) == [m EXCEPT !.caf = cfg.caf, !.daf = cfg.daf, !.asz = cfg.asz, !.ns = cfg.start,
                                      !.le = FdeEnd(cfg), !.rl = FALSE, !.ins = ins, !.st = "run", !.err = "",
                                      !.out = <<>>]

(* UnwindContext::initialize, split so that a model can feed the CIE       *)
(* instructions one at a time: InitBegin; Consume*; InitEnd.               *)
InitBegin(m, cfg, ins) == Begin(TableForCie(Reset(m), cfg, ins))
InitEnd(m) == LET f == Finish(Consume(m)) IN              \* while table.next_row()?.is_some() {}
              IF f.st = "err" THEN f ELSE SaveInitialRules(f)
(* UnwindTable::new = initialize + new_for_fde; st = "err" if initialize failed *)
TableNew(m, cfg, cieins, fdeins) ==
    LET i == InitEnd(InitBegin(m, cfg, cieins)) IN
    IF i.st = "err" THEN [i EXCEPT !.out = <<>>] ELSE TableForFde(i, cfg, fdeins)

(* The complete observation of one use of a context: rows, then "end" or   *)
(* the error.  (fde.rows(..) failing gives no rows.)                       *)
Obs(m) == [rows |-> m.out, fin |-> IF m.st = "err" THEN m.err ELSE "end"]
RunOn(m, cfg, cieins, fdeins) ==
    LET t == TableNew(m, cfg, cieins, fdeins) IN IF t.st = "err" THEN t ELSE Drain(t)

(*------------------------------------------------------------------------*)
(* 4. Reference semantics (DWARF 5 section 6.4), no storage model          *)
(*------------------------------------------------------------------------*)
(* rules: function from a finite set of registers to rules; a register     *)
(* outside the domain has the default rule.                                *)
NoRules == <<>>                                        \* the function with empty domain
FSet(f, reg, rule) == [x \in DOMAIN f \cup {reg} |-> IF x = reg THEN rule ELSE f[x]]
FDel(f, reg) == [x \in DOMAIN f \ {reg} |-> f[x]]
FPairs(f) == {<<x, f[x]>> : x \in DOMAIN f}

RInit(cfg) == [phase |-> "cie", loc |-> Z8, cfa |-> DefaultCfa, rules |-> NoRules, args |-> Z8,
               stack |-> <<>>, initial |-> NoRules, st |-> "run", err |-> "", out |-> <<>>,
               caf |-> cfg.caf, daf |-> cfg.daf, asz |-> cfg.asz, start |-> cfg.start, end |-> FdeEnd(cfg)]

RFail(s, e) == [s EXCEPT !.st = "err", !.err = e]
RRow(s, to) == [start |-> s.loc, end |-> to, args |-> s.args, cfa |-> s.cfa, rules |-> FPairs(s.rules)]
RNewRow(s, to) == [s EXCEPT !.out = Append(@, RRow(s, to)), !.loc = to]

RStep(s, i) ==
    IF s.st # "run" THEN s
    ELSE CASE i.op = "Bad" -> RFail(s, i.err)
      [] i.op = "SetLoc" -> IF ULt(i.a, s.loc) THEN RFail(s, "InvalidCfiSetLoc") ELSE RNewRow(s, i.a)
      [] i.op = "AdvanceLoc" ->
            LET d == Mul8(i.d, s.caf)
                t == AddSized(s.loc, d, s.asz) IN
            IF ~t.ok THEN RFail(s, "AddressOverflow") ELSE RNewRow(s, t.v)
      [] i.op = "DefCfa"   -> [s EXCEPT !.cfa = CfaReg(i.r, i.o)]
      [] i.op = "DefCfaSf" -> [s EXCEPT !.cfa = CfaReg(i.r, Mul8(i.f, s.daf))]
      [] i.op = "DefCfaRegister" ->
            IF s.cfa.k = "reg" THEN [s EXCEPT !.cfa = CfaReg(i.r, s.cfa.off)] ELSE RFail(s, "CfiInstructionInInvalidContext")
      [] i.op = "DefCfaOffset" ->
            IF s.cfa.k = "reg" THEN [s EXCEPT !.cfa = CfaReg(s.cfa.r, i.o)] ELSE RFail(s, "CfiInstructionInInvalidContext")
      [] i.op = "DefCfaOffsetSf" ->
            IF s.cfa.k = "reg" THEN [s EXCEPT !.cfa = CfaReg(s.cfa.r, Mul8(i.f, s.daf))]
            ELSE RFail(s, "CfiInstructionInInvalidContext")
      [] i.op = "DefCfaExpression" -> [s EXCEPT !.cfa = CfaExpr(i.eo, i.el)]
      [] i.op = "Undefined" -> [s EXCEPT !.rules = FSet(@, i.r, RUndefined)]
      [] i.op = "SameValue" -> [s EXCEPT !.rules = FSet(@, i.r, RSameValue)]
      [] i.op \in {"Offset", "OffsetExtendedSf"} -> [s EXCEPT !.rules = FSet(@, i.r, ROffset(Mul8(i.f, s.daf)))]
      [] i.op \in {"ValOffset", "ValOffsetSf"}   -> [s EXCEPT !.rules = FSet(@, i.r, RValOffset(Mul8(i.f, s.daf)))]
      [] i.op = "Register"      -> [s EXCEPT !.rules = FSet(@, i.r, RRegister(i.s))]
      [] i.op = "Expression"    -> [s EXCEPT !.rules = FSet(@, i.r, RExpr(i.eo, i.el))]
      [] i.op = "ValExpression" -> [s EXCEPT !.rules = FSet(@, i.r, RValExpr(i.eo, i.el))]
      [] i.op = "Restore" ->
            IF s.phase = "cie" THEN RFail(s, "CfiInstructionInInvalidContext")
            ELSE IF i.r \in DOMAIN s.initial THEN [s EXCEPT !.rules = FSet(@, i.r, s.initial[i.r])]
            ELSE [s EXCEPT !.rules = FDel(@, i.r)]
      [] i.op = "RememberState" -> [s EXCEPT !.stack = Append(@, [cfa |-> s.cfa, rules |-> s.rules, args |-> s.args])]
      [] i.op = "RestoreState" ->
            IF s.stack = <<>> THEN RFail(s, "PopWithEmptyStack")
            ELSE LET t == s.stack[Len(s.stack)] IN
                 [s EXCEPT !.cfa = t.cfa, !.rules = t.rules, !.args = t.args, !.stack = SubSeq(@, 1, Len(@) - 1)]
      [] i.op = "ArgsSize" -> [s EXCEPT !.args = i.s]
      [] i.op = "NegateRaState" ->
            IF RaSignState \notin DOMAIN s.rules THEN [s EXCEPT !.rules = FSet(@, RaSignState, RConstant(One(8)))]
            ELSE IF s.rules[RaSignState].k = "constant"
                 THEN [s EXCEPT !.rules = FSet(@, RaSignState, RConstant(BXor(s.rules[RaSignState].v, One(8))))]
            ELSE RFail(s, "CfiInstructionInInvalidContext")
      [] i.op = "Nop" -> s

(* end of the initial instructions: the rules in force become the initial  *)
(* rules, the location restarts at the FDE's initial address               *)
REndCie(s) == IF s.st # "run" THEN s
              ELSE [s EXCEPT !.phase = "fde", !.initial = s.rules, !.loc = s.start, !.out = <<>>]
(* end of the FDE's instructions: the last row extends to the FDE's end    *)
REndFde(s) == IF s.st # "run" THEN s ELSE [RNewRow(s, s.end) EXCEPT !.st = "none"]

RECURSIVE RFold(_, _)
RFold(s, ins) == IF ins = <<>> THEN s ELSE RFold(RStep(s, Head(ins)), Tail(ins))
RRun(cfg, cieins, fdeins) ==
    LET c == REndCie(RFold(RInit(cfg), cieins)) IN
    IF c.st = "err" THEN [c EXCEPT !.out = <<>>] ELSE REndFde(RFold(c, fdeins))
RObs(s) == [rows |-> s.out, fin |-> IF s.st = "err" THEN s.err ELSE "end"]

(*------------------------------------------------------------------------*)
(* 5. The property                                                         *)
(*------------------------------------------------------------------------*)
LimitErrors == {"StackFull", "TooManyRegisterRules"}
HitLimit(m) == m.st = "err" /\ m.err \in LimitErrors

(* Abstraction of a machine state (between two instructions) to the        *)
(* reference state's semantic part.                                        *)
RowAbs(row) == [cfa |-> row.cfa, rules |-> RuleSet(row.rules), args |-> row.args]
InStack(m) == m.init /\ m.ir.k = "None"
AbsStack(m) == LET lo == IF InStack(m) THEN 2 ELSE 1
                   hi == Len(m.stack) - 1 IN
               [j \in 1..(hi - lo + 1) |-> RowAbs(m.stack[lo + j - 1])]
AbsInitial(m) == IF ~m.init THEN {}
                 ELSE IF m.ir.k = "None" THEN RuleSet(m.stack[1].rules)
                 ELSE IF m.ir.k = "SomeSome" THEN {<<m.ir.reg, m.ir.rule>>} ELSE {}
MAbs(m) == [loc |-> Top(m).start, top |-> RowAbs(Top(m)), stack |-> AbsStack(m), initial |-> AbsInitial(m),
           phase |-> IF m.init THEN "fde" ELSE "cie"]
RAbs(s) == [loc |-> s.loc, top |-> [cfa |-> s.cfa, rules |-> FPairs(s.rules), args |-> s.args],
            stack |-> [j \in DOMAIN s.stack |-> [cfa |-> s.stack[j].cfa, rules |-> FPairs(s.stack[j].rules),
                                                  args |-> s.stack[j].args]],
            initial |-> FPairs(s.initial), phase |-> s.phase]

(* what the storage layout needs for the reference state s *)
RowsNeeded(s)  == 1 + Len(s.stack) + (IF s.phase = "fde" /\ Cardinality(DOMAIN s.initial) >= 2 THEN 1 ELSE 0)
RulesNeeded(s) == Cardinality(DOMAIN s.rules)

IsPrefix(a, b) == Len(a) <= Len(b) /\ SubSeq(b, 1, Len(a)) = a

(* machine m (possibly storage-limited) against reference s after the same *)
(* instructions:                                                           *)
(*  - no limit hit: same control state, same error, same rows, and while   *)
(*    running the abstraction of the machine equals the reference state    *)
(*  - limit hit: the specific error, and only complete correct rows before *)
Refines(m, s) ==
    IF HitLimit(m) THEN IsPrefix(m.out, s.out)
    ELSE /\ (m.st = "err") = (s.st = "err")
         /\ m.st = "err" => m.err = s.err
         /\ m.out = s.out
         /\ (m.st = "run" /\ s.st = "run") => MAbs(m) = RAbs(s)

(* rows contiguous, starts non-decreasing (each end is the next start),    *)
(* last end = FDE end when the table completed                             *)
RowsWellFormed(o, cfg) ==
    /\ \A j \in 1..(Len(o.rows) - 1) : o.rows[j].end = o.rows[j + 1].start /\ ULe(o.rows[j].start, o.rows[j].end)
    /\ Len(o.rows) > 0 => o.rows[1].start = cfg.start
    /\ o.fin = "end" => Len(o.rows) > 0 /\ o.rows[Len(o.rows)].end = FdeEnd(cfg)

(*------------------------------------------------------------------------*)
(* JSON-friendly projections (sets -> sequences sorted by register)        *)
(*------------------------------------------------------------------------*)
SortPairs(S) == SX!SetToSortSeq(S, LAMBDA a, b : a[1] < b[1])
RowJson(row) == [row EXCEPT !.rules = SortPairs(@)]
ObsJson(o) == [rows |-> [j \in DOMAIN o.rows |-> RowJson(o.rows[j])], fin |-> o.fin]
=============================================================================
