------------------------------- MODULE Expr -------------------------------
(***************************************************************************)
(* The DWARF expression evaluator as a state machine (C07), in the shape   *)
(* of gimli's `Evaluation` (read/op.rs): `evaluate` / `resume_with_*`      *)
(* drive `evaluate_internal`, which repeats                                *)
(*     end_of_expression; iteration check; decode one op; execute; post    *)
(* until it completes, fails, or must ask the caller for outside data.     *)
(*                                                                         *)
(* cfg == [asz, fmt, ver, le, maxiter (-1 = none), obj (<<>> or BV8),      *)
(*         cap, ecap, pcap (storage capacities, 0 = unbounded)]            *)
(* state == [mode, code, pc, es, stack, pieces, iter, vres, wk, wp, req,   *)
(*           err]                                                          *)
(*   mode: "ready" | "wait" | "complete" | "error" | "opaque"              *)
(*   "opaque": the run depends on IEEE-754 arithmetic, which this          *)
(*   specification does not define (DESIGN.md section 6).                  *)
(***************************************************************************)
EXTENDS OpCodec, Value, Sequences, Naturals, Integers

None == "none"
NoBV == <<>>                      \* an absent optional BV operand
NoVal == [t |-> "none", v |-> <<>>]   \* an absent value

Fresh(cfg, code) ==
    [mode |-> "ready", code |-> code, pc |-> 0, es |-> <<>>, stack |-> <<>>, pieces |-> <<>>,
     iter |-> 0, vres |-> NoVal, wk |-> None, wp |-> None, req |-> None, err |-> None]

Fail(st, k)  == [st EXCEPT !.mode = "error", !.err = k]
Opaque(st)   == [st EXCEPT !.mode = "opaque"]
CapFull(n, cap) == cap > 0 /\ n >= cap

(* result of a sub-step is either a state or a failed state; helpers thread errors *)
Top(st)   == st.stack[Len(st.stack)]
Popped(st) == [st EXCEPT !.stack = SubSeq(@, 1, Len(@) - 1)]
Push(st, cfg, v) == IF CapFull(Len(st.stack), cfg.cap) THEN Fail(st, "StackFull")
                    ELSE [st EXCEPT !.stack = Append(@, v)]
PushRes(st, cfg, r) == IF IsErr(r) THEN Fail(st, r.err)
                       ELSE IF IsOpaque(r) THEN Opaque(st)
                       ELSE Push(st, cfg, r)
AddPiece(st, cfg, p) == IF CapFull(Len(st.pieces), cfg.pcap) THEN Fail(st, "StackFull")
                        ELSE [st EXCEPT !.pieces = Append(@, p)]

(* end_of_expression: pops finished nested expressions; TRUE iff nothing is left *)
RECURSIVE EndOf(_)
EndOf(st) == IF st.pc < Len(st.code) THEN st
             ELSE IF st.es = <<>> THEN st
             ELSE LET f == st.es[Len(st.es)] IN
                  EndOf([st EXCEPT !.pc = f.pc, !.code = f.code, !.es = SubSeq(@, 1, Len(@) - 1)])
AtEnd(st) == st.pc >= Len(st.code) /\ st.es = <<>>

(* compute_pc: the new offset must not exceed the length of the current bytecode *)
Branch(st, target) == LET np == st.pc + target IN
                      IF np < 0 \/ np > Len(st.code) THEN Fail(st, "BadBranchTarget")
                      ELSE [st EXCEPT !.pc = np]

Wait(st, kind, payload, req) == [st EXCEPT !.mode = "wait", !.wk = kind, !.wp = payload, !.req = req]

AddrOf(v) == ToU64(v)      \* to_u64, may be an error record

Un(st, cfg, name) ==
    IF st.stack = <<>> THEN Fail(st, "NotEnoughStackItems")
    ELSE LET a == Top(st) s == Popped(st) IN
         PushRes(s, cfg, CASE name = "abs" -> VAbs(a) [] name = "neg" -> VNeg(a) [] OTHER -> VNot(a))

Bin(st, cfg, name) ==
    IF Len(st.stack) < 2 THEN Fail(st, "NotEnoughStackItems")
    ELSE LET b == Top(st)
             a == st.stack[Len(st.stack) - 1]
             s == Popped(Popped(st))
             z == cfg.asz IN
         PushRes(s, cfg,
           CASE name = "and" -> VAnd(a, b) [] name = "div" -> VDiv(a, b) [] name = "minus" -> VSub(a, b)
             [] name = "mod" -> VMod(a, b) [] name = "mul" -> VMul(a, b) [] name = "or" -> VOr(a, b)
             [] name = "plus" -> VAdd(a, b) [] name = "shl" -> VShl(a, b) [] name = "shr" -> VShr(a, b)
             [] name = "shra" -> VShra(a, b) [] name = "xor" -> VXor(a, b) [] name = "eq" -> VEq(a, b, z)
             [] name = "ge" -> VGe(a, b, z) [] name = "gt" -> VGt(a, b, z) [] name = "le" -> VLe(a, b, z)
             [] name = "lt" -> VLt(a, b, z) [] OTHER -> VNe(a, b, z))

(* Execute a decoded operation `op` on `st` (pc already advanced).          *)
(* Returns [st, r] with r \in {"incomplete","piece","wait","fail"} or       *)
(* [st, r |-> "complete", loc].                                             *)
R(st, r) == [st |-> st, r |-> IF st.mode \in {"error", "opaque"} THEN "fail" ELSE r]
Exec(st, cfg, op) ==
  LET z == cfg.asz IN
  CASE op.k = "const" -> R(Push(st, cfg, Gen(Trunc(op.v, z))), "incomplete")
    [] op.k = "addr"  -> R(Wait(st, "reloc", None, [q |-> "RelocatedAddress", addr |-> op.v]), "wait")
    [] op.k = "deref" ->
         (IF op.size > z THEN R(Fail(st, "InvalidDerefSize"), "fail")
          ELSE IF st.stack = <<>> THEN R(Fail(st, "NotEnoughStackItems"), "fail")
          ELSE LET a == AddrOf(Top(st)) s == Popped(st) IN
               IF IsErr(a) THEN R(Fail(s, a.err), "fail")
               ELSE IF ~op.space THEN
                    R(Wait(s, "memory", None, [q |-> "Memory", addr |-> a.u, size |-> op.size, space |-> NoBV, base |-> op.base]), "wait")
               ELSE IF s.stack = <<>> THEN R(Fail(s, "NotEnoughStackItems"), "fail")
               ELSE LET sp == AddrOf(Top(s)) s2 == Popped(s) IN
                    IF IsErr(sp) THEN R(Fail(s2, sp.err), "fail")
                    ELSE R(Wait(s2, "memory", None, [q |-> "Memory", addr |-> a.u, size |-> op.size, space |-> sp.u, base |-> op.base]), "wait"))
    [] op.k = "drop" -> (IF st.stack = <<>> THEN R(Fail(st, "NotEnoughStackItems"), "fail") ELSE R(Popped(st), "incomplete"))
    [] op.k = "pick" -> (IF op.index >= Len(st.stack) THEN R(Fail(st, "NotEnoughStackItems"), "fail")
                         ELSE R(Push(st, cfg, st.stack[Len(st.stack) - op.index]), "incomplete"))
    [] op.k = "swap" -> (IF Len(st.stack) < 2 THEN R(Fail(st, "NotEnoughStackItems"), "fail")
                         ELSE LET n == Len(st.stack) IN
                              R([st EXCEPT !.stack = [@ EXCEPT ![n] = st.stack[n - 1], ![n - 1] = st.stack[n]]], "incomplete"))
    [] op.k = "rot"  -> (IF Len(st.stack) < 3 THEN R(Fail(st, "NotEnoughStackItems"), "fail")
                         ELSE LET n == Len(st.stack) IN
                              R([st EXCEPT !.stack = [@ EXCEPT ![n - 2] = st.stack[n], ![n - 1] = st.stack[n - 2], ![n] = st.stack[n - 1]]], "incomplete"))
    [] op.k = "un"   -> R(Un(st, cfg, op.name), "incomplete")
    [] op.k = "bin"  -> R(Bin(st, cfg, op.name), "incomplete")
    [] op.k = "plus_uconst" ->
         (IF st.stack = <<>> THEN R(Fail(st, "NotEnoughStackItems"), "fail")
          ELSE LET a == Top(st) s == Popped(st)
                   k == FromU64(a.t, op.v, z) IN
               IF IsOpaque(k) THEN R(Opaque(s), "fail") ELSE R(PushRes(s, cfg, VAdd(a, k)), "incomplete"))
    [] op.k = "bra"  -> (IF st.stack = <<>> THEN R(Fail(st, "NotEnoughStackItems"), "fail")
                         ELSE LET a == AddrOf(Top(st)) s == Popped(st) IN
                              IF IsErr(a) THEN R(Fail(s, a.err), "fail")
                              ELSE IF IsZero(a.u) THEN R(s, "incomplete") ELSE R(Branch(s, op.target), "incomplete"))
    [] op.k = "skip" -> R(Branch(st, op.target), "incomplete")
    [] op.k = "breg" -> R(Wait(st, "register", op.off, [q |-> "Register", reg |-> op.reg, base |-> op.base]), "wait")
    [] op.k = "fbreg" -> R(Wait(st, "framebase", op.off, [q |-> "FrameBase"]), "wait")
    [] op.k = "nop"  -> R(st, "incomplete")
    [] op.k = "push_obj" -> (IF cfg.obj = <<>> THEN R(Fail(st, "InvalidPushObjectAddress"), "fail")
                             ELSE R(Push(st, cfg, Gen(Trunc(cfg.obj, z))), "incomplete"))
    [] op.k = "call" -> R(Wait(st, "atlocation", None, [q |-> "AtLocation", ref |-> op.ref, off |-> op.off]), "wait")
    [] op.k = "tls"  -> (IF st.stack = <<>> THEN R(Fail(st, "NotEnoughStackItems"), "fail")
                         ELSE LET a == AddrOf(Top(st)) s == Popped(st) IN
                              IF IsErr(a) THEN R(Fail(s, a.err), "fail")
                              ELSE R(Wait(s, "tls", None, [q |-> "Tls", index |-> a.u]), "wait"))
    [] op.k = "cfa"  -> R(Wait(st, "cfa", None, [q |-> "CallFrameCfa"]), "wait")
    [] op.k = "reg"  -> [st |-> st, r |-> "complete", loc |-> [loc |-> "reg", reg |-> op.reg]]
    [] op.k = "implicit_value" -> [st |-> st, r |-> "complete", loc |-> [loc |-> "bytes", data |-> op.data]]
    [] op.k = "stack_value" -> (IF st.stack = <<>> THEN R(Fail(st, "NotEnoughStackItems"), "fail")
                                ELSE [st |-> Popped(st), r |-> "complete", loc |-> [loc |-> "value", v |-> Top(st)]])
    [] op.k = "implicit_pointer" -> [st |-> st, r |-> "complete",
                                     loc |-> [loc |-> "implptr", value |-> op.value, byte_offset |-> op.byte_offset]]
    [] op.k = "entry_value" -> R(Wait(st, "entryvalue", None, [q |-> "EntryValue", expr |-> op.data]), "wait")
    [] op.k = "param_ref" -> R(Wait(st, "paramref", None, [q |-> "ParameterRef", off |-> op.off]), "wait")
    [] op.k = "addrx" -> R(Wait(st, "indexed", None, [q |-> "IndexedAddress", index |-> op.index, relocate |-> TRUE]), "wait")
    [] op.k = "constx" -> R(Wait(st, "indexed", None, [q |-> "IndexedAddress", index |-> op.index, relocate |-> FALSE]), "wait")
    [] op.k = "piece" ->
         (IF st.stack = <<>> THEN
              R(AddPiece(st, cfg, [bits |-> op.bits, bitoff |-> IF op.hasoff THEN op.bitoff ELSE NoBV, loc |-> [loc |-> "empty"]]), "piece")
          ELSE LET a == AddrOf(Top(st)) s == Popped(st) IN
               IF IsErr(a) THEN R(Fail(s, a.err), "fail")
               ELSE R(AddPiece(s, cfg, [bits |-> op.bits, bitoff |-> IF op.hasoff THEN op.bitoff ELSE NoBV,
                                        loc |-> [loc |-> "addr", a |-> a.u]]), "piece"))
    [] op.k = "typed_literal" -> R(Wait(st, "typedliteral", op.data, [q |-> "BaseType", base |-> op.base]), "wait")
    [] op.k = "convert" -> R(Wait(st, "convert", None, [q |-> "BaseType", base |-> op.base]), "wait")
    [] op.k = "reinterpret" -> R(Wait(st, "reinterpret", None, [q |-> "BaseType", base |-> op.base]), "wait")
    [] op.k = "wasm" -> R(Wait(st, "wasm", None, [q |-> "Wasm", which |-> op.which, index |-> op.index]), "wait")
    [] OTHER -> R(Fail(st, "UnsupportedEvaluation"), "fail")

(* the tail of evaluate_internal once the loop exits *)
Finish(st, cfg) ==
    IF st.pieces # <<>> THEN [st EXCEPT !.mode = "complete"]
    ELSE IF st.stack = <<>> THEN Fail(st, "NotEnoughStackItems")
    ELSE LET e == Top(st) s == Popped(st)
             a == AddrOf(e) IN
         IF IsErr(a) THEN Fail([s EXCEPT !.vres = e], a.err)
         ELSE LET s2 == AddPiece([s EXCEPT !.vres = e], cfg, [bits |-> NoBV, bitoff |-> NoBV, loc |-> [loc |-> "addr", a |-> a.u]]) IN
              IF s2.mode = "error" THEN s2 ELSE [s2 EXCEPT !.mode = "complete"]

Enc(cfg) == [asz |-> cfg.asz, fmt |-> cfg.fmt, ver |-> cfg.ver, le |-> cfg.le]

(* One iteration of the loop in evaluate_internal (mode = "ready"). *)
Step(st0, cfg) ==
    LET st == EndOf(st0) IN
    IF AtEnd(st) THEN Finish(st, cfg)
    ELSE LET s1 == [st EXCEPT !.iter = @ + 1] IN
    IF cfg.maxiter >= 0 /\ s1.iter > cfg.maxiter THEN Fail(s1, "TooManyIterations")
    ELSE LET op == DecodeAt(s1.code, s1.pc, Enc(cfg)) IN
    IF IsDE(op) THEN Fail(s1, op.err)
    ELSE LET x == Exec([s1 EXCEPT !.pc = @ + op.len], cfg, op) IN
    CASE x.r \in {"fail", "wait", "piece"} -> x.st
      [] x.r = "incomplete" ->
           (LET e == EndOf(x.st) IN
            IF AtEnd(e) /\ e.pieces # <<>> THEN Fail(e, "InvalidPiece") ELSE e)
      [] OTHER ->   \* a location-completing operation
           (LET e == EndOf(x.st) IN
            IF AtEnd(e) THEN
                (IF e.pieces # <<>> THEN Fail(e, "InvalidPiece")
                 ELSE AddPiece(e, cfg, [bits |-> NoBV, bitoff |-> NoBV, loc |-> x.loc]))
            ELSE \* the next operation must be a piece; this decode is not counted as an iteration
                LET nx == DecodeAt(e.code, e.pc, Enc(cfg)) IN
                IF IsDE(nx) THEN Fail(e, nx.err)
                ELSE IF nx.k = "piece" THEN
                     AddPiece([e EXCEPT !.pc = @ + nx.len], cfg,
                              [bits |-> nx.bits, bitoff |-> IF nx.hasoff THEN nx.bitoff ELSE NoBV, loc |-> x.loc])
                ELSE Fail([e EXCEPT !.pc = @ + nx.len], "InvalidExpressionTerminator"))

(* evaluate() on a fresh evaluation: optional initial value *)
Start(cfg, code, init) ==
    IF init = <<>> THEN Fresh(cfg, code) ELSE Push(Fresh(cfg, code), cfg, Gen(Trunc(init, cfg.asz)))

(* resume_with_*: ans is [a |-> "value", v |-> Value] | [a |-> "u64", v |-> BV8] |      *)
(* [a |-> "bytes", code |-> bytes] | [a |-> "type", t |-> type]; the answer kind is     *)
(* determined by the wait kind (the harness calls the matching resume function).        *)
AnsKind(wk) == CASE wk \in {"memory", "register", "entryvalue", "wasm"} -> "value"
                 [] wk \in {"framebase", "tls", "cfa", "paramref", "reloc", "indexed"} -> "u64"
                 [] wk = "atlocation" -> "bytes"
                 [] OTHER -> "type"
Resume(st, cfg, ans) ==
  LET z == cfg.asz
      s == [st EXCEPT !.mode = "ready", !.wk = None, !.wp = None] IN
  CASE st.wk \in {"memory", "entryvalue", "wasm"} -> Push(s, cfg, Norm(ans.v, z))
    [] st.wk = "register" ->
         (LET v == Norm(ans.v, z)
              k == FromU64(v.t, st.wp, z) IN
          IF IsOpaque(k) THEN Opaque(s) ELSE PushRes(s, cfg, VAdd(v, k)))
    [] st.wk = "framebase" -> Push(s, cfg, Gen(Trunc(Add(ans.v, st.wp), z)))
    [] st.wk \in {"tls", "cfa", "paramref", "reloc", "indexed"} -> Push(s, cfg, Gen(Trunc(ans.v, z)))
    [] st.wk = "atlocation" ->
         (IF ans.code = <<>> THEN s
          ELSE IF CapFull(Len(s.es), cfg.ecap) THEN Fail(s, "StackFull")
          ELSE [s EXCEPT !.es = Append(@, [pc |-> s.pc, code |-> s.code]), !.code = ans.code, !.pc = 0])
    [] st.wk = "typedliteral" -> PushRes(s, cfg, VParse(ans.t, st.wp, cfg.le, z))
    [] st.wk = "convert" ->
         (IF s.stack = <<>> THEN Fail(s, "NotEnoughStackItems")
          ELSE PushRes(Popped(s), cfg, VConvert(Top(s), ans.t, z)))
    [] OTHER ->  \* reinterpret
         (IF s.stack = <<>> THEN Fail(s, "NotEnoughStackItems")
          ELSE PushRes(Popped(s), cfg, VReinterpret(Top(s), ans.t, z)))

(* run until the evaluation stops being "ready" (used by the trace spec) *)
RECURSIVE Run(_, _)
Run(st, cfg) == IF st.mode # "ready" THEN st ELSE Run(Step(st, cfg), cfg)

(* what the caller observes when the machine stops *)
Outcome(st) ==
    CASE st.mode = "complete" -> [o |-> "complete", pieces |-> st.pieces, value |-> st.vres]
      [] st.mode = "error"    -> [o |-> "error", kind |-> st.err]
      [] st.mode = "wait"     -> [o |-> "requires", req |-> st.req]
      [] OTHER                -> [o |-> "opaque"]

(* invariants of the machine, checked in every explored state *)
IterBound(st, cfg) == cfg.maxiter >= 0 => st.iter <= cfg.maxiter + 1
PcBound(st)        == st.pc >= 0 /\ st.pc <= Len(st.code)
CapBound(st, cfg)  == /\ (cfg.cap > 0 => Len(st.stack) <= cfg.cap)
                      /\ (cfg.ecap > 0 => Len(st.es) <= cfg.ecap)
                      /\ (cfg.pcap > 0 => Len(st.pieces) <= cfg.pcap)
GenericWidth(st, cfg) == \A i \in DOMAIN st.stack : Len(st.stack[i].v) = TW(st.stack[i].t, cfg.asz)
=============================================================================
