INIT Init
NEXT Next
INVARIANT Inv
CHECK_DEADLOCK FALSE
CONSTANTS
  Mode = "probe"
  Big = FALSE
  RawBig = TRUE
  ColsFull = TRUE
