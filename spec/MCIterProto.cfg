SPECIFICATION Spec
INVARIANT TypeOK
INVARIANT Fused
INVARIANT Bounded
PROPERTY FusedAct
PROPERTY Refines
PROPERTY Terminates
CHECK_DEADLOCK FALSE
CONSTANTS
  Fams = {"bytes", "cooked", "count", "chain"}
  MaxN = 5
  MaxM = 6
  MaxF = 1
  LemmaRuns = 2
  LemmaV = 3
