INIT Init
NEXT Next
INVARIANT Inv
CHECK_DEADLOCK FALSE
CONSTANTS
  MaxSeq = 3
  Headers = {1, 2}
