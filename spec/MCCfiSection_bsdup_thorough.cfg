INIT Init
NEXT Next
INVARIANT Inv
CHECK_DEADLOCK FALSE
CONSTANTS
  Fam = "bs"
  MaxTab = 5
  FullTab = 3
  AgreeTab = 6
  MaxLen = 3
  Dups = TRUE
  Slim = FALSE
