INIT Init
NEXT Next
INVARIANT Inv
CHECK_DEADLOCK FALSE
CONSTANTS
  MaxCie = 2
  MaxFde = 3
  MaxTotal = 2
  Alpha = "core"
  Quick = TRUE
