-------------------------- MODULE CfiSectionTrace --------------------------
(***************************************************************************)
(* Trace validation for C05: .eh_frame_hdr binary searches and            *)
(* fde_for_address results recorded from gimli on random tables of        *)
(* 1..2000 FDEs (gvh-cfisec record).                                       *)
(*                                                                         *)
(*  Table   the table rows as decoded by EhHdrTableIter, the FDE list as    *)
(*          reported by entries(), hints (fidx: row -> FDE).  Checked:      *)
(*          rows strictly sorted, every row designates its FDE (location =  *)
(*          initial address, pointer = eh_frame_ptr + offset), FDEs do not  *)
(*          overlap; for small tables the header bytes are re-encoded with  *)
(*          CfiCodec!EncHdr from the listed raw values and the row meanings *)
(*          must equal what the iterator reported.                          *)
(*  Lookup  EhHdrTable::lookup through a TracingReader: the reader          *)
(*          operations must be the ones of the machine as coded (BsSteps;   *)
(*          a difference is reported as DRIFT, not rejected) and the result *)
(*          must be the row with the greatest location <= address (or the   *)
(*          first row).                                                     *)
(*  FdeHdr / FdeScan  succeed exactly when an FDE covers the address and    *)
(*          return that FDE.                                                *)
(***************************************************************************)
EXTENDS CfiSection, TLC, Json, IOUtils, FiniteSets
VARIABLES l, t
Rec == ndJsonDeserialize(IOEnv.TRACE)
IsEv(e) == l <= Len(Rec) /\ Rec[l].ev = e /\ l' = l + 1

Locs(T) == Tup([i \in DOMAIN T.rows |-> T.rows[i][1]])
FdeOfRow(T, i) == T.fdes[T.fidx[i] + 1]            \* <<offset, start, len>>

TableEv == IsEv("Table") /\ t' = l /\ LET T == Rec[l] n == Len(T.rows) IN
    /\ n >= 1 /\ Len(T.fdes) = n /\ Len(T.fidx) = n
    /\ TabSize(T.tenc) = T.size
    /\ \A i \in 1..n : /\ FdeOfRow(T, i)[2] = T.rows[i][1]
                       /\ Add8(T.ehptr, N8(FdeOfRow(T, i)[1])) = T.rows[i][2]
                       /\ ~IsZero(FdeOfRow(T, i)[3])
    /\ \A i \in 1..(n - 1) : ULe8(Add8(T.rows[i][1], FdeOfRow(T, i)[3]), T.rows[i + 1][1])   \* sorted, no overlap
    /\ \A i \in 1..n : \A j \in 1..n : (i # j /\ n <= 64) => T.fidx[i] # T.fidx[j]
    /\ (T.hdr # <<>> =>
          LET h  == [ver |-> 1, penc |-> T.penc, praw |-> T.ehptr, cenc |-> T.cenc, count |-> T.count,
                     tenc |-> T.tenc, rows |-> T.raw]
              HB == [section |-> T.hbase, text |-> None, data |-> T.hbase]
              hm == HdrMeaning(h, 8, HB)
              rm == HdrRowMeanings(h, 8, HB)
          IN /\ EncHdr(h, 8, T.le) = T.hdr
             /\ hm.ok /\ hm.ptr.v = T.ehptr /\ hm.t0 = T.t0 /\ hm.count = T.count
             /\ Len(rm) = n
             /\ \A i \in 1..n : rm[i].l.ok /\ rm[i].p.ok /\ rm[i].l.v = T.rows[i][1] /\ rm[i].p.v = T.rows[i][2])

(* number of locations <= a; for a strictly sorted table this is the index of the greatest one *)
GreatestSorted(locs, a) ==
    LET k == Cardinality({i \in DOMAIN locs : ULe8(locs[i], a)}) IN IF k = 0 THEN 1 ELSE k

LookupEv == IsEv("Lookup") /\ UNCHANGED t /\ t > 0 /\ LET r == Rec[l] T == Rec[t] locs == Locs(T) IN
    LET i == Lookup(locs, r.a) IN
    /\ "ok" \in DOMAIN r.res /\ r.res.ok
    /\ i = GreatestSorted(locs, r.a)
    /\ r.res.k = "direct" /\ r.res.v = T.rows[i][2]
    /\ (r.steps = BsSteps(locs, r.a, Len(locs), 0, T.t0, T.size)
        \/ PrintT(<<"DRIFT", l>>))       \* reader operations differ from the machine as coded

(* the FDE covering a, if any: the row with the greatest location <= a must contain it *)
CoverExp(T, a) ==
    LET locs == Locs(T)
        g == GreatestSorted(locs, a)
        f == FdeOfRow(T, g)
    IN IF ULe8(f[2], a) /\ ULt8(a, Add8(f[2], f[3])) THEN [ok |-> TRUE, off |-> f[1]] ELSE [ok |-> FALSE]
ResIs(res, exp) ==
    /\ "ok" \in DOMAIN res
    /\ res.ok = exp.ok
    /\ (exp.ok => res.off = exp.off)

FdeHdrEv  == IsEv("FdeHdr")  /\ UNCHANGED t /\ t > 0 /\ ResIs(Rec[l].res, CoverExp(Rec[t], Rec[l].a))
FdeScanEv == IsEv("FdeScan") /\ UNCHANGED t /\ t > 0 /\ ResIs(Rec[l].res, CoverExp(Rec[t], Rec[l].a))

Init == l = 1 /\ t = 0
Next == TableEv \/ LookupEv \/ FdeHdrEv \/ FdeScanEv
Accepted == LET d == TLCGet("stats").diameter IN
            IF d - 1 = Len(Rec) THEN TRUE
            ELSE Print(<<"UNMATCHED", d, ToJson(Rec[d])>>, FALSE)
=============================================================================
