---------------------------- MODULE LookupTrace ----------------------------
(* Trace validation of lookups recorded on large random tables (C17).        *)
(*                                                                          *)
(* A table event carries the section bytes gimli was given and, as a hint,   *)
(* the abstract table; the hint is re-encoded with Lookup's encoder and      *)
(* must reproduce the bytes.  Every following lookup event is compared with  *)
(* the lookup AS CODED and with the exhaustive scan of the abstract table:   *)
(*   index:  hit(row)  => <<id,row>> is a pair of the table,                 *)
(*           miss      => id is no id of the table;                          *)
(*   names:  every yielded index carries the probed hash, absent hashes      *)
(*           yield nothing, and the probes of all distinct present hashes    *)
(*           together yield every name exactly once (NamesEnd);              *)
(*   aranges / pub: the complete iteration equals the abstract list;         *)
(*   indexed tables: entry i, or an error at and beyond the end.             *)
(* Real sections from the corpus (Corpus* events) carry no hint: the table   *)
(* is read off the bytes by Lookup's layout decoders (Enc(Dec(bytes)) =      *)
(* bytes is checked) and the lookups are judged against its scan.            *)
(* The per-table sets are constant-level definitions indexed by the table's  *)
(* event number, so TLC builds each of them once.                            *)
EXTENDS Lookup, TLC, Json, IOUtils
VARIABLES l, t, cnt
Rec == ndJsonDeserialize(IOEnv.TRACE)

IsEv(e) == l <= Len(Rec) /\ Rec[l].ev = e /\ l' = l + 1
IsErr(x) == "err" \in DOMAIN x
Same(exp, got) == IF IsErr(exp) THEN IsErr(got) ELSE got = exp

(* the abstract table of a table event: the logged hint, or (real sections from the  *)
(* corpus, no hint) the table read off the bytes by Lookup's layout decoders          *)
(* TLC evaluates [k \in S |-> e] lazily (e is re-evaluated at every application); `@@` *)
(* yields an explicit function, so each per-table value below is computed exactly once  *)
Eager(f) == f @@ <<>>
IndexTables == {k \in DOMAIN Rec : Rec[k].ev \in {"IndexTable", "CorpusIndex"}}
IxAt == Eager([k \in IndexTables |-> IF Rec[k].ev = "IndexTable" THEN Rec[k].ix ELSE DecIndex(Rec[k].bytes, Rec[k].le)])
IdSetAt == Eager([k \in IndexTables |-> {IxAt[k].slots[i].id : i \in DOMAIN IxAt[k].slots}])
PairsAt == Eager([k \in IndexTables |-> {<<IxAt[k].slots[i].id, IxAt[k].slots[i].row>> : i \in DOMAIN IxAt[k].slots}])
NamesTables == {k \in DOMAIN Rec : Rec[k].ev \in {"NamesTable", "CorpusNames"}}
NxAt == Eager([k \in NamesTables |-> IF Rec[k].ev = "NamesTable" THEN Rec[k].nx ELSE DecNamesLite(Rec[k].bytes, Rec[k].le)])
HashSetAt == Eager([k \in NamesTables |-> {NxAt[k].hashes[i] : i \in DOMAIN NxAt[k].hashes}])
Tables == {k \in DOMAIN Rec : Rec[k].ev \in {"Table", "CorpusTable"}}
TblAt == Eager([k \in Tables |-> IF Rec[k].ev = "Table" THEN Rec[k].t ELSE DecTable(Rec[k].bytes, Rec[k].base, Rec[k].w, Rec[k].le)])

IndexTable == IsEv("IndexTable") /\ LET r == Rec[l] IN
    /\ EncIndex(r.ix, r.le) = r.bytes
    /\ LET used == {i \in DOMAIN r.ix.slots : ~IsZero(r.ix.slots[i].id)} IN
       /\ Cardinality(IdSetAt[l] \ {Zero(8)}) = Cardinality(used)             \* the table is a function id -> row
       /\ Cardinality(used) = Len(r.ix.rows)
    /\ t' = l /\ cnt' = 0
CorpusIndex == IsEv("CorpusIndex") /\ LET r == Rec[l]
                                         enc == EncIndex(IxAt[l], r.le) IN
    /\ Len(enc) <= Len(r.bytes) /\ SubSeq(r.bytes, 1, Len(enc)) = enc          \* the decoder inverts the encoder
    /\ t' = l /\ cnt' = 0
IndexParsed == IsEv("IndexParsed") /\ LET r == Rec[l] IN
    /\ IndexParse(IxAt[t]) = [ok |-> TRUE, ver |-> r.ver, scount |-> r.scount, ucount |-> r.ucount, ncount |-> r.ncount]
    /\ UNCHANGED <<t, cnt>>
Find == IsEv("Find") /\ LET r == Rec[l] IN
    /\ r.res = FindCoded(IxAt[t].slots, r.id)                                  \* the probe machine as coded
    /\ IF r.res.hit THEN <<r.id, r.res.row>> \in PairsAt[t]                    \* = the exhaustive scan
       ELSE (r.id \notin IdSetAt[t] \/ IsZero(r.id))
    /\ UNCHANGED <<t, cnt>>
Sections == IsEv("Sections") /\ LET r == Rec[l] IN
    /\ LET e == IndexSections(IxAt[t], r.row) IN
       IF r.row = 0 \/ r.row > Len(IxAt[t].rows) THEN IsErr(r.res) ELSE (~IsErr(r.res) /\ r.res.ok = e)
    /\ UNCHANGED <<t, cnt>>

Lite(h) == [bcount |-> h.bcount, buckets |-> h.buckets, hashes |-> h.hashes, names |-> h.stroffs]
NamesTable == IsEv("NamesTable") /\ LET r == Rec[l] IN
    /\ EncNamesUniform(r.nx, r.le) = r.bytes
    /\ t' = l /\ cnt' = 0
CorpusNames == IsEv("CorpusNames") /\ LET r == Rec[l]
                                         h == NxAt[l] IN
    /\ h.ver = 5 /\ h.pool_at <= Len(r.bytes) + 1
    /\ (h.bcount > 0 => SortedByBucket(h.hashes, h.bcount) /\ h.buckets = BuildBuckets(h.hashes, h.bcount))   \* a well-formed table
    /\ t' = l /\ cnt' = 0
FindByHash == IsEv("FindByHash") /\ LET r == Rec[l]
                                       h == NxAt[t] IN
    /\ ~IsErr(r.res)
    /\ r.res = HashCoded(Lite(h), r.h)                                         \* bucket walk as coded
    /\ \A k \in DOMAIN r.res.items : h.hashes[r.res.items[k] + 1] = r.h        \* only names with that hash
    /\ \A k \in DOMAIN r.res.items : k > 1 => r.res.items[k - 1] < r.res.items[k]
    /\ IF r.present THEN r.h \in HashSetAt[t] /\ Len(r.res.items) >= 1
       ELSE r.h \notin HashSetAt[t] /\ r.res.items = <<>>
    /\ cnt' = IF r.present THEN cnt + Len(r.res.items) ELSE cnt
    /\ t' = t
NamesEnd == IsEv("NamesEnd") /\ cnt = Len(NxAt[t].hashes) /\ UNCHANGED <<t, cnt>>   \* every name was found once
Bucket == IsEv("Bucket") /\ LET r == Rec[l] IN
    /\ Same(BucketCoded(Lite(NxAt[t]), r.b), r.res)
    /\ UNCHANGED <<t, cnt>>
NameOff == IsEv("NameOff") /\ LET r == Rec[l]
                                 h == NxAt[t] IN
    /\ IF r.i >= Len(h.stroffs) THEN IsErr(r.stroff) ELSE r.stroff = [ok |-> h.stroffs[r.i + 1]]
    /\ UNCHANGED <<t, cnt>>
Name == IsEv("Name") /\ LET r == Rec[l]
                           h == Rec[t].nx IN
    /\ IF r.i >= Len(h.stroffs) THEN IsErr(r.res.stroff) /\ IsErr(r.res.entries)
       ELSE /\ r.res.stroff = [ok |-> h.stroffs[r.i + 1]]
            /\ r.res.entries = << [off |-> 6 * r.i, die |-> [ok |-> h.dies[r.i + 1]]] >>
    /\ UNCHANGED <<t, cnt>>

Aranges == IsEv("Aranges") /\ LET r == Rec[l] IN
    /\ EncArSet(r.a, r.le) = r.bytes
    /\ ~IsErr(r.res)
    /\ r.res.asz = r.a.asz /\ r.res.info = r.a.info
    /\ r.res.raw = ArRawObs(r.a)
    /\ r.res.entries = ArCooked(r.a)
    /\ UNCHANGED <<t, cnt>>
CorpusAranges == IsEv("CorpusAranges") /\ LET r == Rec[l]
                                             sets == DecArSets(r.bytes, r.le, 1) IN
    /\ Flat([k \in DOMAIN sets |-> EncArSet(sets[k], r.le)]) = r.bytes            \* the decoder inverts the encoder
    /\ ~IsErr(r.res) /\ Len(r.res.sets) = Len(sets)
    /\ \A k \in DOMAIN sets :
         /\ ArHeaderOk(sets[k])
         /\ r.res.sets[k].asz = sets[k].asz /\ r.res.sets[k].info = sets[k].info
         /\ r.res.sets[k].raw = ArRawObs(sets[k])
         /\ r.res.sets[k].entries = ArCooked(sets[k])
    /\ UNCHANGED <<t, cnt>>
CorpusPub == IsEv("CorpusPub") /\ LET r == Rec[l]
                                     sets == DecPubSets(r.bytes, r.le, 1) IN
    /\ Flat([k \in DOMAIN sets |-> EncPubSet(sets[k], r.le)]) = r.bytes
    /\ ~IsErr(r.res) /\ r.res.items = PubItems(sets, 1)
    /\ UNCHANGED <<t, cnt>>
CorpusTable == IsEv("CorpusTable") /\ LET r == Rec[l] IN
    /\ EncTable(TblAt[l], r.le) = r.bytes
    /\ t' = l /\ cnt' = 0
Pub == IsEv("Pub") /\ LET r == Rec[l] IN
    /\ Flat([k \in DOMAIN r.sets |-> EncPubSet(r.sets[k], r.le)]) = r.bytes
    /\ ~IsErr(r.res) /\ r.res.items = PubItems(r.sets, 1)
    /\ UNCHANGED <<t, cnt>>
Table == IsEv("Table") /\ LET r == Rec[l] IN
    /\ EncTable(r.t, r.le) = r.bytes
    /\ t' = l /\ cnt' = 0
Get == IsEv("Get") /\ LET r == Rec[l] IN
    /\ Same(TableGet(TblAt[t], r.i), r.res)
    /\ UNCHANGED <<t, cnt>>

Init == l = 1 /\ t = 0 /\ cnt = 0
Next == IndexTable \/ IndexParsed \/ Find \/ Sections \/ NamesTable \/ FindByHash \/ NamesEnd \/ Bucket \/ Name
        \/ Aranges \/ Pub \/ Table \/ Get
        \/ CorpusIndex \/ CorpusNames \/ NameOff \/ CorpusAranges \/ CorpusPub \/ CorpusTable
Accepted == LET d == TLCGet("stats").diameter IN
            IF d - 1 = Len(Rec) THEN TRUE
            ELSE Print(<<"UNMATCHED", d, ToJson([k \in {"ev", "res", "id", "h", "i", "b", "row", "present", "file", "stroff"} \cap DOMAIN Rec[d] |-> Rec[d][k]])>>, FALSE)
=============================================================================
