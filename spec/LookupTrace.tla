---------------------------- MODULE LookupTrace ----------------------------
(* Trace validation of lookups recorded on large random tables (C17).        *)
(*                                                                          *)
(* A table event carries the section bytes gimli was given and, as a hint,   *)
(* the abstract table; the hint is re-encoded with Lookup's encoder and      *)
(* must reproduce the bytes.  Every following lookup event is compared with  *)
(* the lookup AS CODED and with the exhaustive scan of the abstract table:   *)
(*   index:  hit(row)  => <<id,row>> is a pair of the table,                 *)
(*           miss      => id is no id of the table;                          *)
(*   names:  every yielded index carries the probed hash, absent hashes      *)
(*           yield nothing, and the probes of all distinct present hashes    *)
(*           together yield every name exactly once (NamesEnd);              *)
(*   aranges / pub: the complete iteration equals the abstract list;         *)
(*   indexed tables: entry i, or an error at and beyond the end.             *)
(* The per-table sets are constant-level definitions indexed by the table's  *)
(* event number, so TLC builds each of them once.                            *)
EXTENDS Lookup, TLC, Json, IOUtils
VARIABLES l, t, cnt
Rec == ndJsonDeserialize(IOEnv.TRACE)

IsEv(e) == l <= Len(Rec) /\ Rec[l].ev = e /\ l' = l + 1
IsErr(x) == "err" \in DOMAIN x
Same(exp, got) == IF IsErr(exp) THEN IsErr(got) ELSE got = exp

IndexTables == {k \in DOMAIN Rec : Rec[k].ev = "IndexTable"}
IdSetAt == [k \in IndexTables |-> {Rec[k].ix.slots[i].id : i \in DOMAIN Rec[k].ix.slots}]
PairsAt == [k \in IndexTables |-> {<<Rec[k].ix.slots[i].id, Rec[k].ix.slots[i].row>> : i \in DOMAIN Rec[k].ix.slots}]
NamesTables == {k \in DOMAIN Rec : Rec[k].ev = "NamesTable"}
HashSetAt == [k \in NamesTables |-> {Rec[k].nx.hashes[i] : i \in DOMAIN Rec[k].nx.hashes}]

IndexTable == IsEv("IndexTable") /\ LET r == Rec[l] IN
    /\ EncIndex(r.ix, r.le) = r.bytes
    /\ LET used == {i \in DOMAIN r.ix.slots : ~IsZero(r.ix.slots[i].id)} IN
       /\ Cardinality(IdSetAt[l] \ {Zero(8)}) = Cardinality(used)             \* the table is a function id -> row
       /\ Cardinality(used) = Len(r.ix.rows)
    /\ t' = l /\ cnt' = 0
IndexParsed == IsEv("IndexParsed") /\ LET r == Rec[l] IN
    /\ IndexParse(Rec[t].ix) = [ok |-> TRUE, ver |-> r.ver, scount |-> r.scount, ucount |-> r.ucount, ncount |-> r.ncount]
    /\ UNCHANGED <<t, cnt>>
Find == IsEv("Find") /\ LET r == Rec[l] IN
    /\ r.res = FindCoded(Rec[t].ix.slots, r.id)                                \* the probe machine as coded
    /\ IF r.res.hit THEN <<r.id, r.res.row>> \in PairsAt[t]                    \* = the exhaustive scan
       ELSE (r.id \notin IdSetAt[t] \/ IsZero(r.id))
    /\ UNCHANGED <<t, cnt>>
Sections == IsEv("Sections") /\ LET r == Rec[l] IN
    /\ LET e == IndexSections(Rec[t].ix, r.row) IN
       IF r.row = 0 \/ r.row > Len(Rec[t].ix.rows) THEN IsErr(r.res) ELSE (~IsErr(r.res) /\ r.res.ok = e)
    /\ UNCHANGED <<t, cnt>>

Lite(h) == [bcount |-> h.bcount, buckets |-> h.buckets, hashes |-> h.hashes, names |-> h.stroffs]
NamesTable == IsEv("NamesTable") /\ LET r == Rec[l] IN
    /\ EncNamesUniform(r.nx, r.le) = r.bytes
    /\ t' = l /\ cnt' = 0
FindByHash == IsEv("FindByHash") /\ LET r == Rec[l]
                                       h == Rec[t].nx IN
    /\ ~IsErr(r.res)
    /\ r.res = HashCoded(Lite(h), r.h)                                         \* bucket walk as coded
    /\ \A k \in DOMAIN r.res.items : h.hashes[r.res.items[k] + 1] = r.h        \* only names with that hash
    /\ \A k \in DOMAIN r.res.items : k > 1 => r.res.items[k - 1] < r.res.items[k]
    /\ IF r.present THEN r.h \in HashSetAt[t] /\ Len(r.res.items) >= 1
       ELSE r.h \notin HashSetAt[t] /\ r.res.items = <<>>
    /\ cnt' = IF r.present THEN cnt + Len(r.res.items) ELSE cnt
    /\ t' = t
NamesEnd == IsEv("NamesEnd") /\ cnt = Len(Rec[t].nx.hashes) /\ UNCHANGED <<t, cnt>>   \* every name was found once
Bucket == IsEv("Bucket") /\ LET r == Rec[l] IN
    /\ Same(BucketCoded(Lite(Rec[t].nx), r.b), r.res)
    /\ UNCHANGED <<t, cnt>>
Name == IsEv("Name") /\ LET r == Rec[l]
                           h == Rec[t].nx IN
    /\ IF r.i >= Len(h.stroffs) THEN IsErr(r.res.stroff) /\ IsErr(r.res.entries)
       ELSE /\ r.res.stroff = [ok |-> h.stroffs[r.i + 1]]
            /\ r.res.entries = << [off |-> 6 * r.i, die |-> [ok |-> h.dies[r.i + 1]]] >>
    /\ UNCHANGED <<t, cnt>>

Aranges == IsEv("Aranges") /\ LET r == Rec[l] IN
    /\ EncArSet(r.a, r.le) = r.bytes
    /\ ~IsErr(r.res)
    /\ r.res.asz = r.a.asz /\ r.res.info = r.a.info
    /\ r.res.raw = ArRawObs(r.a)
    /\ r.res.entries = ArCooked(r.a)
    /\ UNCHANGED <<t, cnt>>
Pub == IsEv("Pub") /\ LET r == Rec[l] IN
    /\ Flat([k \in DOMAIN r.sets |-> EncPubSet(r.sets[k], r.le)]) = r.bytes
    /\ ~IsErr(r.res) /\ r.res.items = PubItems(r.sets, 1)
    /\ UNCHANGED <<t, cnt>>
Table == IsEv("Table") /\ LET r == Rec[l] IN
    /\ EncTable(r.t, r.le) = r.bytes
    /\ t' = l /\ cnt' = 0
Get == IsEv("Get") /\ LET r == Rec[l] IN
    /\ Same(TableGet(Rec[t].t, r.i), r.res)
    /\ UNCHANGED <<t, cnt>>

Init == l = 1 /\ t = 0 /\ cnt = 0
Next == IndexTable \/ IndexParsed \/ Find \/ Sections \/ NamesTable \/ FindByHash \/ NamesEnd \/ Bucket \/ Name
        \/ Aranges \/ Pub \/ Table \/ Get
Accepted == LET d == TLCGet("stats").diameter IN
            IF d - 1 = Len(Rec) THEN TRUE
            ELSE Print(<<"UNMATCHED", d, ToJson([k \in {"ev", "res", "id", "h", "i", "b", "row", "present"} \cap DOMAIN Rec[d] |-> Rec[d][k]])>>, FALSE)
=============================================================================
