SPECIFICATION Spec
INVARIANT Bounded
CHECK_DEADLOCK FALSE
CONSTANTS
  Fams = {"noguard"}
  MaxN = 3
  MaxM = 0
  MaxF = 0
  LemmaRuns = 0
  LemmaV = 0
