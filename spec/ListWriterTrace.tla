-------------------------- MODULE ListWriterTrace --------------------------
(***************************************************************************)
(* Trace validation for C16: units recorded by gvh-listw record (seeded    *)
(* random tables of 1-5 range / location lists with up to 8 entries,       *)
(* duplicates, address sizes 4/8, versions 2-5, both formats and byte      *)
(* orders).  Each Unit event carries the built lists and what gimli did    *)
(* (write error, or the ranges / (range, expression) pairs read back per   *)
(* list, the id classes and the emitted sections).  The event is accepted  *)
(* iff it is what the property allows according to ListWriter:             *)
(*  - some list cannot be represented in the encoding (the categories the *)
(*    property names, or ListWriter!CanCarry fails): the write failed;     *)
(*  - otherwise: written, every list reads back as its Meaning, equal      *)
(*    lists share an id class, the sections hold one copy per distinct     *)
(*    list (size of the emission as coded).                                *)
(***************************************************************************)
EXTENDS ListWriter, TLC, Json, IOUtils, FiniteSets
VARIABLE l
Rec == ndJsonDeserialize(IOEnv.TRACE)

RECURSIVE Build(_, _, _, _, _)
Build(ls, i, rt, lt, ids) ==
    IF i > Len(ls) THEN [rt |-> rt, lt |-> lt, ids |-> ids]
    ELSE IF ls[i].fam = "rng"
         THEN LET a == TabAdd(rt, ls[i].L) IN Build(ls, i + 1, a.tab, lt, Append(ids, a.id))
         ELSE LET a == TabAdd(lt, ls[i].L) IN Build(ls, i + 1, rt, a.tab, Append(ids, a.id))

SameItems(got, mean) == /\ Len(got) = Len(mean)
                        /\ \A i \in DOMAIN mean : got[i].t = "some" /\ got[i].begin = mean[i].begin
                                                  /\ got[i].end = mean[i].end /\ got[i].d = mean[i].d
(* id class = position, among the lists of the same table, of the first list with the same id *)
ClassOf(ls, ids, i) == LET S == {j \in 1..i : ls[j].fam = ls[i].fam /\ ids[j] = ids[i]}
                           f == CHOOSE j \in S : \A k \in S : j <= k IN
                       Cardinality({j \in 1..f : ls[j].fam = ls[i].fam})

Unit == /\ l <= Len(Rec) /\ Rec[l].ev = "Unit" /\ l' = l + 1
        /\ LET r   == Rec[l]
               enc == r.enc
               lp  == r.lp
               ls  == r.lists
               o   == r.obs
               bd  == Build(ls, 1, <<>>, <<>>, <<>>)
               \* DIE offsets for the entry references: the model's unit layout, which the
               \* offsets gimli reports for the DIEs it read back must confirm
               offs == ModelOffs(enc, lp, Len(ls))
               X(L) == Expand(L, enc, offs)
               named == \E i \in DOMAIN ls : NamedReject(ls[i].L, 1, HaveBase(lp), enc)
               rej == \E i \in DOMAIN ls : MustReject(X(ls[i].L), enc, lp)
               faithful == /\ o.t = "ok" /\ Len(o.lists) = Len(ls)
                           /\ o.dieoffs = offs
                           /\ \A i \in DOMAIN ls : o.lists[i].t = ls[i].fam
                                                   /\ SameItems(o.lists[i].items, Meaning(X(ls[i].L), enc, lp, ls[i].fam))
               w == WriteUnit([i \in DOMAIN bd.rt |-> X(bd.rt[i])], [i \in DOMAIN bd.lt |-> X(bd.lt[i])], enc, lp)
           IN
           IF rej THEN o.t = "err"
           ELSE /\ faithful
                /\ o.classes = [i \in DOMAIN ls |-> ClassOf(ls, bd.ids, i)]
                /\ o.other = 0
                /\ w.ok /\ Len(o.rsec) = Len(w.rsec) /\ Len(o.lsec) = Len(w.lsec)
                /\ o.low_pc = UnitBase(lp)

Init == l = 1
Next == Unit
Accepted == LET d == TLCGet("stats").diameter IN
            IF d - 1 = Len(Rec) THEN TRUE
            ELSE Print(<<"UNMATCHED", d, ToJson([line |-> d])>>, FALSE)
=============================================================================
