INIT InitX
NEXT NextX
INVARIANT InvX
CHECK_DEADLOCK FALSE
CONSTANTS
  Plan = "thorough"
  MaxBytes = 3
  Quick = FALSE
