------------------------------ MODULE MCLoader ------------------------------
(* The section loader as a function (C17): every loading API x every id that *)
(* may fail (or none).  Each section's data is a distinct marker, so a field  *)
(* that received another section's data (or the supplementary / parent data)  *)
(* is visible.  The two package indexes are real (tiny, different) indexes.   *)
EXTENDS Lookup, TLC, Json
VARIABLE c

IdIdx(id) == CHOOSE i \in DOMAIN AllIds : AllIds[i] = id
Mark(space, id) == [p \in 1..3 |-> space * 80 + IdIdx(id) * 3 + p]
CuId == <<1, 0, 0, 0, 0, 0, 0, 0>>
TuId == <<2, 0, 0, 0, 1, 0, 0, 0>>
OneUnit(id, n) == [ver |-> 5, cols |-> <<1>>, slots |-> Insert(EmptySlots(n), id, FromNat(1, 4)),
                   rows |-> << <<[off |-> Zero(4), size |-> Zero(4)]>> >>]
Data(space, id) == IF id = "DebugCuIndex" THEN EncIndex(OneUnit(CuId, 2), TRUE)
                   ELSE IF id = "DebugTuIndex" THEN EncIndex(OneUnit(TuId, 4), TRUE)
                   ELSE Mark(space, id)
Space(k) == [id \in IdSet |-> Data(k, id)]

Init == c = [stage |-> 0]
Next == c.stage = 0 /\ \E api \in LoaderApis : \E fail \in IdSet \cup {"none"} :
            c' = [stage |-> 1, api |-> api, fail |-> fail]
Inv == c.stage = 1 =>
    PrintT(<<"CASE", ToJson([sys |-> "loader", api |-> c.api, fail |-> c.fail, le |-> TRUE,
                             main |-> Space(0), sup |-> Space(1), parent |-> Space(2),
                             index_probes |-> <<CuId, TuId>>,
                             cu_find |-> <<FindCoded(OneUnit(CuId, 2).slots, CuId), FindCoded(OneUnit(CuId, 2).slots, TuId)>>,
                             tu_find |-> <<FindCoded(OneUnit(TuId, 4).slots, CuId), FindCoded(OneUnit(TuId, 4).slots, TuId)>>,
                             exp |-> LoaderExp(c.api, Space(0), Space(1), Space(2), c.fail)])>>)
=============================================================================
