INIT Init
NEXT Next
INVARIANT Inv
CHECK_DEADLOCK FALSE
CONSTANTS
  Mode = "raw"
  Big = FALSE
  RawBig = TRUE
  ColsFull = TRUE
