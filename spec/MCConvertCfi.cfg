INIT Init
NEXT Next
INVARIANT Theorem
INVARIANT Emit
CHECK_DEADLOCK FALSE
CONSTANTS
  MaxLen = 1
  Slice = "data"
  Cafs = {1}
  Dafs = {992}
  Vers = {1}
  Lens = {"u32max"}
