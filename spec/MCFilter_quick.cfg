INIT Init
NEXT Next
INVARIANT Inv
CHECK_DEADLOCK FALSE
CONSTANTS
  MaxN = 4
  MaxUnits = 2
  MaxEdges = 2
  MaxEdgesBig = 1
  Salt = 1
  EmitMod = 2
  CheckSplit = FALSE
  KindN = 2
  FewSubsets = TRUE
  RootN = 2
