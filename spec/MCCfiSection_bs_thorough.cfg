INIT Init
NEXT Next
INVARIANT Inv
CHECK_DEADLOCK FALSE
CONSTANTS
  Fam = "bs"
  MaxTab = 6
  FullTab = 6
  AgreeTab = 6
  MaxLen = 5
  Dups = FALSE
  Slim = FALSE
