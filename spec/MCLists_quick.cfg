INIT InitL
NEXT NextL
INVARIANT InvL
INVARIANT InvL0
CHECK_DEADLOCK FALSE
CONSTANTS
  MaxLen = 3
  FlavLen = 1
  CoreFrom = 3
  Bases = {"0", "1", "T2", "T1"}
  DieLen = 2
  DieSlimLen = 3
  DieCoreFrom = 3
