---------------------------- MODULE MCLineHist ----------------------------
(***************************************************************************)
(* C20 (line rows): ONE LineRows iterator run over a program made of       *)
(* several sequences behaves, for every sequence, like a fresh iterator.   *)
(*                                                                         *)
(* A history is a sequence of <= MaxSeq sequence templates:                *)
(*   normal (two rows / one row at a high address) - tombstoned from its   *)
(*   start (DW_LNE_set_address -1, -2, or below the current address before *)
(*   any row) - tombstoned mid-way after 1 or 2 returned rows (-1, -2 and  *)
(*   revived, lower address) - empty (a bare end_sequence) - and, as last  *)
(*   element only, the same without DW_LNE_end_sequence.                   *)
(* The machine is LineSM.tla's `Apply`/`Run` = gimli's LineRow::execute +  *)
(* LineRows::next_row as coded, whose state (registers, tombstone flag,    *)
(* `in_sequence`) is carried from sequence to sequence exactly as the code *)
(* does: only `LineRow::reset` after an end_sequence row and the           *)
(* assignments to `in_sequence` in next_row touch it.                      *)
(*                                                                         *)
(* TLC checks in every state (history)                                     *)
(*   HistoryIndependent: the rows the continuous iterator yields while     *)
(*     executing the last sequence = the rows of a fresh iterator over     *)
(*     that sequence alone (inductively: for every sequence);              *)
(*   LineSM!SequencesConsistent: sequences() + resume_from reproduce the   *)
(*     continuous rows; every reported sequence ends with its only         *)
(*     end_sequence row; a sequence that yields no row is not reported.    *)
(* Every state prints a replay case (same shape as C04's cases, replayed   *)
(* by gvh-linesm: rows(), sequences(), resume_from() for each sequence).   *)
(***************************************************************************)
EXTENDS LineSM, Json
CONSTANTS MaxSeq, Headers
VARIABLES h, p, n

HT == <<
 [ver |-> 4, fmt |-> 32, asz |-> 8, le |-> TRUE,  mil |-> 1, maxops |-> 1, dis |-> TRUE,
  lbase |-> 0 - 5, lrange |-> 14, obase |-> 13, oplens |-> StdLens],
 [ver |-> 4, fmt |-> 32, asz |-> 1, le |-> TRUE,  mil |-> 1, maxops |-> 1, dis |-> TRUE,
  lbase |-> 0 - 3, lrange |-> 12, obase |-> 13, oplens |-> StdLens],
 [ver |-> 3, fmt |-> 64, asz |-> 4, le |-> FALSE, mil |-> 2, maxops |-> 1, dis |-> FALSE,
  lbase |-> 0 - 5, lrange |-> 14, obase |-> 10, oplens |-> SubSeq(StdLens, 1, 9)]
>>
Tab == [dirs |-> <<>>, files |-> <<<<<<97>>, Z8, Z8, Z8>>>>]

SA(a) == IV("set_address", a)
A(k) == Nat8(k)
CP == I0("copy")
AP == IV("advance_pc", Nat8(1))
ES == I0("end_sequence")
T1(H) == ZExt(Ones(H.asz), 8)            \* -1 at the address size
T2(H) == MinTomb(H.asz)                  \* -2
Templates(H) == <<
    <<SA(A(16)), CP, AP, CP, AP>>,                          \* 1 normal, two rows
    <<SA(A(200)), CP>>,                                     \* 2 normal, one row
    <<SA(T1(H)), CP, AP, CP>>,                              \* 3 tombstoned from its start (-1)
    <<SA(T2(H)), CP, AP>>,                                  \* 4 tombstoned from its start (-2)
    <<SA(A(16)), SA(A(8)), CP>>,                            \* 5 tombstoned from its start (below the current address)
    <<SA(A(16)), CP, SA(T1(H)), CP, AP>>,                   \* 6 tombstoned mid-way after one row
    <<SA(A(16)), CP, AP, CP, SA(A(8)), CP>>,                \* 7 tombstoned mid-way after two rows (lower address)
    <<SA(A(200)), CP, SA(T2(H)), CP, SA(A(210)), CP>>,      \* 8 tombstoned mid-way, then live again
    <<>> >>                                                 \* 9 empty: a bare end_sequence
NT == 9
OpenOf == <<1, 6, 3>>                                       \* ids 10..12: templates 1, 6, 3 without end_sequence (last only)
Closed(k) == k <= NT
TemplateIns(H, k) == IF Closed(k) THEN Append(Templates(H)[k], ES) ELSE Templates(H)[OpenOf[k - NT]]
TemplateBytes(H, k) == LET q == TemplateIns(H, k) IN Flatten([j \in 1..Len(q) |-> Enc(H, q[j], <<>>)])
BytesT == TLCEval([i \in 1..Len(HT) |-> [k \in 1..(NT + 3) |-> TemplateBytes(HT[i], k)]])
HdrT == TLCEval([i \in 1..Len(HT) |-> EncHeaderBody(HT[i], Tab)])
(* a fresh iterator over one template alone *)
FreshT == TLCEval([i \in 1..Len(HT) |-> [k \in 1..(NT + 3) |-> Run(HT[i], DecodeAll(HT[i], BytesT[i][k]))]])

ProgBytes(i, q) == Flatten([j \in 1..Len(q) |-> BytesT[i][q[j]]])

Init == h \in Headers /\ p = <<>> /\ n = 0
Next == /\ Len(p) < (IF h = 1 THEN MaxSeq ELSE MaxSeq - 1)
        /\ (IF p = <<>> THEN TRUE ELSE Closed(p[Len(p)]))
        /\ \E k \in 1..(NT + 3) :
             /\ p' = Append(p, k)
             (* rows the continuous iterator has yielded before it enters the new sequence *)
             /\ n' = Len(Run(HT[h], DecodeAll(HT[h], ProgBytes(h, p))).rows)
        /\ UNCHANGED h

Inv == p # <<>> =>
    LET H  == HT[h]
        b  == ProgBytes(h, p)
        L  == DecodeAll(H, b)
        S  == Run(H, L)
        RR == ResumedRuns(H, L, S)
        F  == FreshT[h][p[Len(p)]] IN
    /\ L.ok /\ S.end = "done"
    (* the last sequence on the long-lived iterator = on a fresh iterator *)
    /\ SubSeq(S.rows, n + 1, Len(S.rows)) = F.rows
    /\ SequencesConsistent(S, RR)
    /\ Monotone(S.rows) /\ InRange(S.rows, H.asz)
    (* a sequence is reported iff it yields an end_sequence row *)
    /\ Len(S.seqs) = Cardinality({j \in 1..Len(p) : \E r \in 1..Len(FreshT[h][p[j]].rows) : RowEs(FreshT[h][p[j]].rows[r])})
    /\ PrintT(<<"CASE", ToJson(
         [sys |-> "linehist", le |-> H.le, asz |-> H.asz, sect |-> EncUnit(H, HdrT[h], b), pick |-> p, hdr |-> h,
          exp |-> [end |-> S.end, rows |-> S.rows,
                   perseq |-> [j \in 1..Len(p) |-> FreshT[h][p[j]].rows],
                   seqs |-> [k \in 1..Len(RR) |-> [start |-> S.seqs[k].start, end |-> S.seqs[k].end, rows |-> RR[k].rows]]]])>>)
=============================================================================
