INIT Init
NEXT Next
INVARIANT Inv
CHECK_DEADLOCK FALSE
CONSTANTS
  Fam = "ins"
  MaxCies = 3
  MaxFdes = 3
  Slim = FALSE
