INIT InitL
NEXT NextL
INVARIANT InvL
INVARIANT InvL0
CHECK_DEADLOCK FALSE
CONSTANTS
  MaxLen = 1
  FlavLen = 1
  CoreFrom = 3
  Bases = {"0", "1"}
  DieLen = 1
  DieSlimLen = 1
  DieCoreFrom = 3
