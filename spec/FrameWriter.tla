----------------------------- MODULE FrameWriter -----------------------------
(***************************************************************************)
(* gimli::write::FrameTable as a builder machine (C14).                    *)
(*                                                                         *)
(* State = what the user has built: the de-duplicated set of CIEs (in      *)
(* insertion order) and the list of FDEs, each naming a CIE id.  Actions   *)
(* = the public calls add_cie / add_fde (+ the instruction lists given to  *)
(* add_instruction).  `Write(kind)` gives                                  *)
(*   (i)  the emission as coded in src/write/cfi.rs: lazy CIE emission in  *)
(*        order of first reference, entry layout, augmentation, pointer    *)
(*        encodings, instruction selection by operand sign / register      *)
(*        number, advance_loc form by factored delta, exact factoring or   *)
(*        error, padding with DW_CFA_nop, the specific errors; and         *)
(*   (ii) the MEANING that has to be read back: CIE parameters, FDE        *)
(*        ranges, personality / LSDA, and for each FDE the partial         *)
(*        function code offset -> (CFA rule, register rules, args size)    *)
(*        defined directly on the supplied instructions (a small           *)
(*        reference evaluator restricted to write::CallFrameInstruction).  *)
(* Entry layout reuses the CfiCodec encoders.                              *)
(***************************************************************************)
EXTENDS CfiCodec, TLC

WOk(b)    == [ok |-> TRUE, b |-> b]
WErr(e)   == [ok |-> FALSE, err |-> e]

(*------------------------ instruction emission ----------------------------*)
(* factored_data_offset: exact division by the data alignment factor *)
Exact(o, d) == d # 0 /\ o % (IF d < 0 THEN -d ELSE d) = 0      \* no product: TLC integers are 32-bit
(* instruction i = [op, r, r2, o, n, e]; unused operands are 0 / <<>> *)
EmitIns(i, daf) ==
    LET fo == IF Exact(i.o, daf) THEN i.o \div daf ELSE 0
        bad == WErr("InvalidFrameDataOffset")
    IN
    CASE i.op = "cfa" ->
            IF i.o < 0 THEN (IF Exact(i.o, daf) THEN WOk(<<18>> \o UlebNat(i.r) \o SlebInt(fo)) ELSE bad)
            ELSE WOk(<<12>> \o UlebNat(i.r) \o UlebNat(i.o))
      [] i.op = "cfa_register" -> WOk(<<13>> \o UlebNat(i.r))
      [] i.op = "cfa_offset" ->
            IF i.o < 0 THEN (IF Exact(i.o, daf) THEN WOk(<<19>> \o SlebInt(fo)) ELSE bad)
            ELSE WOk(<<14>> \o UlebNat(i.o))
      [] i.op = "cfa_expr" -> WOk(<<15>> \o UlebNat(Len(i.e)) \o i.e)
      [] i.op = "restore" -> IF i.r < 64 THEN WOk(<<192 + i.r>>) ELSE WOk(<<6>> \o UlebNat(i.r))
      [] i.op = "undefined" -> WOk(<<7>> \o UlebNat(i.r))
      [] i.op = "same_value" -> WOk(<<8>> \o UlebNat(i.r))
      [] i.op = "offset" ->
            IF ~Exact(i.o, daf) THEN bad
            ELSE IF fo < 0 THEN WOk(<<17>> \o UlebNat(i.r) \o SlebInt(fo))
            ELSE IF i.r < 64 THEN WOk(<<128 + i.r>> \o UlebNat(fo))
            ELSE WOk(<<5>> \o UlebNat(i.r) \o UlebNat(fo))
      [] i.op = "val_offset" ->
            IF ~Exact(i.o, daf) THEN bad
            ELSE IF fo < 0 THEN WOk(<<21>> \o UlebNat(i.r) \o SlebInt(fo))
            ELSE WOk(<<20>> \o UlebNat(i.r) \o UlebNat(fo))
      [] i.op = "register" -> WOk(<<9>> \o UlebNat(i.r) \o UlebNat(i.r2))
      [] i.op = "expr" -> WOk(<<16>> \o UlebNat(i.r) \o UlebNat(Len(i.e)) \o i.e)
      [] i.op = "val_expr" -> WOk(<<22>> \o UlebNat(i.r) \o UlebNat(Len(i.e)) \o i.e)
      [] i.op = "remember" -> WOk(<<10>>)
      [] i.op = "restore_state" -> WOk(<<11>>)
      [] i.op = "args_size" -> WOk(<<46>> \o UlebNat(i.n))
      [] i.op = "negate_ra" -> WOk(<<45>>)

(* write_advance_loc / factored_code_delta *)
EmitAdvance(caf, prev, off) ==
    IF off = prev THEN WOk(<<>>)
    ELSE IF off < prev THEN WErr("InvalidFrameCodeOffset")
    ELSE IF caf = 0 \/ ((off - prev) \div caf) * caf # off - prev THEN WErr("InvalidFrameCodeOffset")
    ELSE LET d == (off - prev) \div caf IN
         IF d < 64 THEN WOk(<<64 + d>>)
         ELSE IF d < 256 THEN WOk(<<2, d>>)
         ELSE IF d < 65536 THEN WOk(<<3>> \o Tup(Fld(N8(d), 2, TRUE)))       \* byte order patched by the caller
         ELSE WOk(<<4>> \o Tup(Fld(N8(d), 4, TRUE)))
(* the same with the section's byte order *)
EmitAdvanceE(caf, prev, off, le) ==
    LET a == EmitAdvance(caf, prev, off) IN
    IF ~a.ok \/ le \/ Len(a.b) <= 2 THEN a
    ELSE WOk(<<a.b[1]>> \o Reverse(SubSeq(a.b, 2, Len(a.b))))

RECURSIVE EmitCieIns(_, _, _)
EmitCieIns(ins, k, daf) ==
    IF k > Len(ins) THEN WOk(<<>>)
    ELSE LET a == EmitIns(ins[k], daf) IN
         IF ~a.ok THEN a
         ELSE LET rest == EmitCieIns(ins, k + 1, daf) IN IF ~rest.ok THEN rest ELSE WOk(a.b \o rest.b)
(* FDE instructions are <<offset, instruction>> *)
RECURSIVE EmitFdeIns(_, _, _, _, _, _)
EmitFdeIns(ins, k, prev, caf, daf, le) ==
    IF k > Len(ins) THEN WOk(<<>>)
    ELSE LET adv == EmitAdvanceE(caf, prev, ins[k][1], le) IN
         IF ~adv.ok THEN adv
         ELSE LET a == EmitIns(ins[k][2], daf) IN
              IF ~a.ok THEN a
              ELSE LET rest == EmitFdeIns(ins, k + 1, ins[k][1], caf, daf, le) IN
                   IF ~rest.ok THEN rest ELSE WOk(adv.b \o a.b \o rest.b)

(*--------------------------- pointers -------------------------------------*)
(* Writer::write_eh_pointer for Address::Constant: absptr or pcrel only;     *)
(* pos = section offset where the pointer is written.  Returns the raw       *)
(* value, or the error of write_udata / write_sdata when it does not fit.    *)
FitsU(v, n) == \A j \in (n + 1)..8 : v[j] = 0
FitsS(v, n) == v = SExt(Trunc(v, n), 8)
RawFits(f, v, asz) ==
    CASE f = 0 -> FitsU(v, asz)
      [] f \in {1, 9} -> TRUE
      [] f = 2 -> FitsU(v, 2) [] f = 3 -> FitsU(v, 4) [] f = 4 -> TRUE
      [] f = 10 -> FitsS(v, 2) [] f = 11 -> FitsS(v, 4) [] f = 12 -> TRUE
      [] OTHER -> FALSE
WPtr(enc, addr, pos, asz) ==
    IF PeApp(enc) \notin {0, PePcrel} THEN WErr("UnsupportedPointerEncoding")
    ELSE LET v == IF PeApp(enc) = 0 THEN addr ELSE Sub8(addr, N8(pos)) IN
         IF PeFormat(enc) \notin PeFormats THEN WErr("UnsupportedPointerEncoding")
         ELSE IF ~RawFits(PeFormat(enc), v, asz) THEN WErr("ValueTooLarge")
         ELSE [ok |-> TRUE, raw |-> v]

(*----------------------------- entries ------------------------------------*)
(* builder CIE: [fmt, ver, asz, caf, daf, ra, pers : [some, enc, addr],      *)
(*               lenc (-1 = none), fenc, sig, ins]                           *)
HasAug(bc) == bc.pers.some \/ bc.lenc >= 0 \/ bc.sig \/ bc.fenc # 0
AugString(bc) ==
    IF ~HasAug(bc) THEN <<>>
    ELSE <<ChZ>> \o (IF bc.lenc >= 0 THEN <<ChL>> ELSE <<>>) \o (IF bc.pers.some THEN <<ChP>> ELSE <<>>)
         \o (IF bc.fenc # 0 THEN <<ChR>> ELSE <<>>) \o (IF bc.sig THEN <<ChS>> ELSE <<>>)
(* write_nop(w, initial_length_size + body_len, address_size)  (since 6613c53; before, the *)
(* 8-byte word size was used for the 64-bit format)                                       *)
PadLen(fmt, bodyLen, asz) == (asz - ((LenSize(fmt) + bodyLen) % asz)) % asz
(* the property: the length field plus the length is a multiple of the address size *)
PadOk(fmt, len, asz) == (LenSize(fmt) + len) % asz = 0

(* CfiCodec CIE record for a builder CIE (without instructions / padding) *)
CodecCie(kind, bc, praw) ==
    [t |-> "cie", fmt |-> bc.fmt, ver |-> bc.ver, aug |-> AugString(bc), asz |-> bc.asz, seg |-> 0,
     caf |-> bc.caf, daf |-> bc.daf, ra |-> bc.ra,
     lenc |-> IF bc.lenc >= 0 THEN bc.lenc ELSE 0, penc |-> IF bc.pers.some THEN bc.pers.enc ELSE 0,
     praw |-> praw, renc |-> bc.fenc, augx |-> <<>>, ins |-> <<>>, insx |-> <<>>]
     \* version 1 stores the return address register in one byte in both section kinds (since
     \* ee1bea5; before, .eh_frame used ULEB128 - CfiCodec's optional field `rau` models that)

(* section offset of the personality pointer of a CIE written at `off`: after the     *)
(* augmentation length byte, L's byte and P's encoding byte                            *)
PersPos(kind, bc, off) ==
    off + LenSize(bc.fmt) + Len(CieIdBytes(kind, bc.fmt)) + Len(CieHead(kind, CodecCie(kind, bc, Zero(8)))) + 1
    + (IF bc.lenc >= 0 THEN 1 ELSE 0) + 1
(* section offset of the initial-location field of an FDE written at `foff` *)
FdeAddrPos(kind, bc, foff) == foff + LenSize(bc.fmt) + CiePtrLen(kind, bc.fmt)
(* section offset of the LSDA pointer of such an FDE when its addresses are plain (fenc = absptr) *)
FdeLsdaPosPlain(kind, bc, foff) == FdeAddrPos(kind, bc, foff) + 2 * bc.asz + 1

(* Design-level lemma (checked by TLC on every generated pointer): whatever            *)
(* write_eh_pointer accepts reads back, through the reader's pointer meaning            *)
(* (CfiCodec!PtrMeaning = read::parse_encoded_pointer with the section based at 0), as  *)
(* the address that was supplied, modulo the address size; what it cannot represent     *)
(* is an error, never a different value.                                                *)
Bases0 == [section |-> Zero(8), text |-> None, data |-> None]
PtrRoundTrip(enc, addr, pos, asz) ==
    LET w == WPtr(enc, addr, pos, asz) IN
    w.ok => LET m == PtrMeaning(enc, w.raw, asz, Bases0, N8(pos), None)
            IN m.ok /\ m.v = MaskA(addr, asz)

(* the writer always lays out address-size/segment bytes for version >= 4    *)
(* and none otherwise; CfiCodec does so for kind "debug"; .eh_frame only     *)
(* accepts version 1                                                         *)
EmitCie(kind, bc, off, le) ==
    IF kind = "eh" /\ bc.ver # 1 THEN WErr("UnsupportedVersion")
    ELSE IF kind = "debug" /\ bc.ver \notin {1, 3, 4} THEN WErr("UnsupportedVersion")
    ELSE IF bc.ver = 1 /\ bc.ra >= 256 THEN WErr("ValueTooLarge")
    ELSE LET ppos == PersPos(kind, bc, off)
             wp   == IF bc.pers.some THEN WPtr(bc.pers.enc, bc.pers.addr, ppos, bc.asz) ELSE [ok |-> TRUE, raw |-> Zero(8)]
         IN IF ~wp.ok THEN wp
            ELSE LET ins == EmitCieIns(bc.ins, 1, bc.daf) IN
                 IF ~ins.ok THEN ins
                 ELSE LET c1  == [CodecCie(kind, bc, wp.raw) EXCEPT !.insx = ins.b]
                          n1  == Len(CieBody(kind, c1, bc.asz, le))
                          pad == PadLen(bc.fmt, n1, bc.asz)
                          c2  == [c1 EXCEPT !.insx = ins.b \o Tup([j \in 1..pad |-> 0])]
                      IN [ok |-> TRUE, b |-> EncCie(kind, c2, bc.asz, le), c |-> c2, len |-> n1 + pad]

(* builder FDE: [cie (CIE id), addr, len, lsda : [some, addr], ins]          *)
EmitFde(kind, bf, bc, cc, off, cieOff, le) ==
    LET apos == off + LenSize(bc.fmt) + CiePtrLen(kind, bc.fmt)
        wa   == IF bc.fenc # 0 THEN WPtr(bc.fenc, bf.addr, apos, bc.asz)
                ELSE IF FitsU(bf.addr, bc.asz) THEN [ok |-> TRUE, raw |-> bf.addr] ELSE WErr("ValueTooLarge")
        lenOk == IF bc.fenc # 0 THEN RawFits(PeFormat(bc.fenc), N8(bf.len), bc.asz) ELSE FitsU(N8(bf.len), bc.asz)
    IN IF ~wa.ok THEN wa
       ELSE IF ~lenOk THEN WErr("ValueTooLarge")
       ELSE LET f0   == [t |-> "fde", fmt |-> bc.fmt, cie |-> 0, iraw |-> wa.raw, rraw |-> N8(bf.len),
                         lraw |-> Zero(8), augx |-> <<>>, ins |-> <<>>, insx |-> <<>>]
                lpos == apos + Len(FdeAddrBytes(f0, cc, bc.asz, TRUE)) + 1
                wl   == IF bf.lsda.some /\ bc.lenc >= 0 THEN WPtr(bc.lenc, bf.lsda.addr, lpos, bc.asz)
                        ELSE [ok |-> TRUE, raw |-> Zero(8)]
            IN IF ~wl.ok THEN wl
               ELSE LET ins == EmitFdeIns(bf.ins, 1, 0, bc.caf, bc.daf, le) IN
                    IF ~ins.ok THEN ins
                    ELSE LET f1  == [f0 EXCEPT !.lraw = wl.raw, !.insx = ins.b]
                             n1  == Len(FdeBody(kind, f1, cc, off, cieOff, bc.asz, le))
                             pad == PadLen(bc.fmt, n1, bc.asz)
                             f2  == [f1 EXCEPT !.insx = ins.b \o Tup([j \in 1..pad |-> 0])]
                         IN [ok |-> TRUE, b |-> EncFde(kind, f2, cc, off, cieOff, bc.asz, le), len |-> n1 + pad]

(*----------------------------- the builder --------------------------------*)
(* FrameTable::add_cie: identical CIEs share an id (index in insertion order) *)
RECURSIVE CieIds(_, _, _, _)
CieIds(adds, k, set, ids) ==          \* adds: the CIEs passed to add_cie, in call order
    IF k > Len(adds) THEN [set |-> set, ids |-> ids]
    ELSE LET J == {j \in DOMAIN set : set[j] = adds[k]} IN
         IF J # {} THEN CieIds(adds, k + 1, set, Append(ids, CHOOSE j \in J : TRUE))
         ELSE CieIds(adds, k + 1, Append(set, adds[k]), Append(ids, Len(set) + 1))
Builder(adds) == CieIds(adds, 1, <<>>, <<>>)

(* FrameTable::write: FDEs in order; a CIE is written just before the first FDE that names it *)
RECURSIVE WriteFrom(_, _, _, _, _, _, _, _)
WriteFrom(kind, set, fdes, le, k, cieOffs, bytes, ents) ==
    IF k > Len(fdes) THEN [ok |-> TRUE, b |-> bytes, ents |-> ents]
    ELSE LET bf  == fdes[k]
             bc  == set[bf.cie]
             off == Len(bytes)
             ec  == IF cieOffs[bf.cie] >= 0 THEN [ok |-> TRUE, b |-> <<>>, c |-> CodecCie(kind, bc, Zero(8)), len |-> 0]
                    ELSE EmitCie(kind, bc, off, le)
         IN IF ~ec.ok THEN ec
            ELSE LET cieOff == IF cieOffs[bf.cie] >= 0 THEN cieOffs[bf.cie] ELSE off
                     foff   == off + Len(ec.b)
                     ef     == EmitFde(kind, bf, bc, ec.c, foff, cieOff, le)
                 IN IF ~ef.ok THEN ef
                    ELSE WriteFrom(kind, set, fdes, le, k + 1, [cieOffs EXCEPT ![bf.cie] = cieOff],
                                   bytes \o ec.b \o ef.b,
                                   ents \o (IF cieOffs[bf.cie] >= 0 THEN <<>>
                                            ELSE <<[t |-> "cie", id |-> bf.cie, off |-> off, len |-> ec.len]>>)
                                        \o <<[t |-> "fde", k |-> k, off |-> foff, len |-> ef.len, cie_off |-> cieOff]>>)
(* `pre` = bytes already present in the section writer before write_debug_frame /      *)
(* write_eh_frame is called (entries then start at Len(pre); padding is relative to    *)
(* the entry, never to the section position)                                           *)
WriteP(kind, set, fdes, le, pre) ==
    WriteFrom(kind, set, fdes, le, 1, [j \in DOMAIN set |-> -1], pre, <<>>)
Write(kind, set, fdes, le) == WriteP(kind, set, fdes, le, <<>>)

(*------------------------- meaning: reference rows ------------------------*)
(* state = [cfa, rules (function register -> rule, only defined rules),      *)
(*          args, stack]                                                     *)
CfaRO(r, o) == [k |-> "ro", r |-> r, o |-> o]
St0 == [cfa |-> CfaRO(0, 0), rules |-> <<>>, args |-> 0, stack |-> <<>>]      \* rules: sequence of [r, rule] sorted by insertion
RuleOf(st, r) == LET J == {j \in DOMAIN st.rules : st.rules[j].r = r} IN
                 IF J = {} THEN [k |-> "undef"] ELSE st.rules[CHOOSE j \in J : TRUE].rule
Without(rules, r) == SelectSeq(rules, LAMBDA x : x.r # r)
SetRule(st, r, rule) ==
    [st EXCEPT !.rules = IF rule.k = "undef" THEN Without(st.rules, r)
                         ELSE Append(Without(st.rules, r), [r |-> r, rule |-> rule])]
RaSignState == 34
(* one instruction; init = the state after the CIE's instructions (for restore) *)
Step(st, i, init) ==
    CASE i.op = "cfa" -> [st EXCEPT !.cfa = CfaRO(i.r, i.o)]
      [] i.op = "cfa_register" -> IF st.cfa.k = "ro" THEN [st EXCEPT !.cfa = CfaRO(i.r, st.cfa.o)] ELSE st   \* else ill-formed (StepOk)
      [] i.op = "cfa_offset" -> IF st.cfa.k = "ro" THEN [st EXCEPT !.cfa = CfaRO(st.cfa.r, i.o)] ELSE st
      [] i.op = "cfa_expr" -> [st EXCEPT !.cfa = [k |-> "expr", b |-> i.e]]
      [] i.op = "restore" -> SetRule(st, i.r, RuleOf(init, i.r))
      [] i.op = "undefined" -> SetRule(st, i.r, [k |-> "undef"])
      [] i.op = "same_value" -> SetRule(st, i.r, [k |-> "same"])
      [] i.op = "offset" -> SetRule(st, i.r, [k |-> "off", o |-> i.o])
      [] i.op = "val_offset" -> SetRule(st, i.r, [k |-> "valoff", o |-> i.o])
      [] i.op = "register" -> SetRule(st, i.r, [k |-> "reg", s |-> i.r2])
      [] i.op = "expr" -> SetRule(st, i.r, [k |-> "expr", b |-> i.e])
      [] i.op = "val_expr" -> SetRule(st, i.r, [k |-> "valexpr", b |-> i.e])
      [] i.op = "remember" -> [st EXCEPT !.stack = Append(@, [cfa |-> st.cfa, rules |-> st.rules, args |-> st.args])]
      [] i.op = "restore_state" ->
            IF st.stack = <<>> THEN st ELSE                                  \* ill-formed (StepOk)
            LET top == st.stack[Len(st.stack)] IN
            [cfa |-> top.cfa, rules |-> top.rules, args |-> top.args, stack |-> SubSeq(st.stack, 1, Len(st.stack) - 1)]
      [] i.op = "args_size" -> [st EXCEPT !.args = i.n]
      [] i.op = "negate_ra" ->
            LET cur == RuleOf(st, RaSignState) v == IF cur.k = "const" THEN cur.v ELSE 0
            IN SetRule(st, RaSignState, [k |-> "const", v |-> 1 - v])
(* well-formedness of a program for the reference semantics: what the DWARF   *)
(* machine requires (register/offset forms on a register+offset CFA, restore_state *)
(* with something remembered)                                                *)
StepOk(st, i) ==
    /\ (i.op \in {"cfa_register", "cfa_offset"} => st.cfa.k = "ro")
    /\ (i.op = "restore_state" => Len(st.stack) > 0)
    /\ (i.op = "negate_ra" => RuleOf(st, RaSignState).k \in {"undef", "const"})

RECURSIVE RunCie(_, _, _)
RunCie(ins, k, st) == IF k > Len(ins) THEN st ELSE RunCie(ins, k + 1, Step(st, ins[k], St0))
RECURSIVE CieOk(_, _, _)
CieOk(ins, k, st) == IF k > Len(ins) THEN TRUE
                     ELSE ins[k].op # "restore" /\ StepOk(st, ins[k]) /\ CieOk(ins, k + 1, Step(st, ins[k], St0))
(* the state in force at code offset x of the FDE: all instructions with offset <= x applied *)
RECURSIVE StateAt(_, _, _, _, _)
StateAt(ins, k, st, init, x) ==
    IF k > Len(ins) \/ ins[k][1] > x THEN st
    ELSE StateAt(ins, k + 1, Step(st, ins[k][2], init), init, x)
RECURSIVE FdeOk(_, _, _, _)
FdeOk(ins, k, st, init) ==
    IF k > Len(ins) THEN TRUE
    ELSE StepOk(st, ins[k][2]) /\ FdeOk(ins, k + 1, Step(st, ins[k][2], init), init)
Project(st) == [cfa |-> st.cfa, rules |-> {[r |-> st.rules[j].r] @@ st.rules[j].rule : j \in DOMAIN st.rules}, args |-> st.args]
=============================================================================
