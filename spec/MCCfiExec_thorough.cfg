INIT Init
NEXT Next
INVARIANT Inv
CHECK_DEADLOCK FALSE
CONSTANTS
  Plan = "thorough"
  MaxBytes = 3
  Quick = FALSE
