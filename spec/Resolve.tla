------------------------------- MODULE Resolve -------------------------------
(***************************************************************************)
(* Extension beyond the listed properties: unit setup and indexed          *)
(* attribute resolution as coded in src/read/dwarf.rs (+ str.rs, addr.rs). *)
(*                                                                         *)
(* State = a file D (the small set of sections as byte sequences, the file *)
(* type and the optional supplementary file) and a unit descriptor         *)
(*   u = [h, tag, body, attrs],  h = [ver, fmt, asz, ut, le]               *)
(* whose root DIE uses one tiny abbreviation (code 1, no children).        *)
(*                                                                         *)
(*  1. Encoder: unit header, abbreviation table, root DIE (`EncInfo`,      *)
(*     `EncAbbrev`); attribute value after parse_attribute + value()       *)
(*     (`Norm`: which AttributeValue variant gimli hands to Unit::new).    *)
(*  2. The functions AS CODED: DebugStr::get_str, get_str_offset,          *)
(*     get_address (skip base, checked_mul, skip, read), Dwarf::attr_string*)
(*     / attr_line_string / attr_address, Unit::new (defaults per file     *)
(*     type and version, the attribute loop, resolution after the loop),   *)
(*     Unit::dwo_name, Dwarf::make_dwo, Unit::copy_relocated_attributes,   *)
(*     ranges_offset_from_raw.                                             *)
(*  3. Their MEANING, stated independently: entry i of a table is the word *)
(*     at base + i*w computed without overflow (17-byte arithmetic) and    *)
(*     must lie inside the section; a string is the bytes up to the first  *)
(*     NUL at or after the offset; each unit field is the value of the     *)
(*     last root attribute of the right name and class, else its default;  *)
(*     a split unit resolves addresses through the skeleton's base in the  *)
(*     parent's .debug_addr.                                               *)
(* MCResolve checks (2) = (3) on every explored configuration and emits    *)
(* replay cases for gimli.                                                 *)
(*                                                                         *)
(* Values: numbers are 8-byte little-endian tuples (BV); results are       *)
(* [s |-> bytes] (string), [v |-> BV8] (number), [none |-> TRUE], or       *)
(* [err |-> kind].  Deliberate gimli behaviours modelled as coded: an      *)
(* unresolvable DW_AT_name / DW_AT_comp_dir is dropped (None) while an     *)
(* unresolvable DW_AT_low_pc or DW_AT_stmt_list fails Unit::new; a base    *)
(* attribute whose form is not a section offset is ignored; the last       *)
(* duplicate attribute wins (the first for DW_AT_GNU_dwo_id, and the dwo   *)
(* id of a DWARF 5 header wins over the attribute); the headers of         *)
(* .debug_str_offsets / .debug_addr are never parsed.                      *)
(***************************************************************************)
EXTENDS Abbrev, TLC

Lay(v, le) == IF le THEN v ELSE Reverse(v)
N8(n) == FromNat(n, 8)
Fixed(n, size, le) == Lay(FromNat(n, size), le)
Word(fmt) == IF fmt = 64 THEN 8 ELSE 4
E(k) == [err |-> k]
IsErr(r) == "err" \in DOMAIN r
(* None == [none |-> TRUE] comes from Abbrev *)
IsNone(r) == "none" \in DOMAIN r
Some(x) == [v |-> x]
AnyErr(r) == IF IsErr(r) THEN E("any") ELSE r          \* error kinds are not part of the meaning
RECURSIVE FlatS(_)
FlatS(ss) == IF ss = <<>> THEN <<>> ELSE Head(ss) \o FlatS(Tail(ss))
SetMax(S) == CHOOSE x \in S : \A y \in S : x >= y
SetMin(S) == CHOOSE x \in S : \A y \in S : x <= y

(* ------------------------------ constants ------------------------------ *)
AT == [name |-> 3, stmt_list |-> 16, low_pc |-> 17, comp_dir |-> 27, producer |-> 37,
       str_offsets_base |-> 114, addr_base |-> 115, rnglists_base |-> 116, dwo_name |-> 118,
       loclists_base |-> 140, GNU_dwo_name |-> 8496, GNU_dwo_id |-> 8497,
       GNU_ranges_base |-> 8498, GNU_addr_base |-> 8499]
FM == [addr |-> 1, data2 |-> 5, data4 |-> 6, data8 |-> 7, string |-> 8, data1 |-> 11, strp |-> 14,
       udata |-> 15, sec_offset |-> 23, strx |-> 26, addrx |-> 27, strp_sup |-> 29, line_strp |-> 31,
       strx1 |-> 37, strx2 |-> 38, strx3 |-> 39, strx4 |-> 40,
       addrx1 |-> 41, addrx2 |-> 42, addrx3 |-> 43, addrx4 |-> 44,
       GNU_addr_index |-> 7937, GNU_str_index |-> 7938, GNU_strp_alt |-> 7969]
DwoIdV == <<241, 226, 211, 196, 181, 166, 151, 136>>    \* dwo id of a DWARF 5 skeleton / split header

(* ------------------------------- encoder ------------------------------- *)
(* h.ut (DW_UT_*: 1 compile, 4 skeleton, 5 split_compile) exists from DWARF 5 on *)
HasHdrDwoId(h) == h.ver = 5 /\ h.ut \in {4, 5}
InitLenSize(fmt) == IF fmt = 64 THEN 12 ELSE 4
InitLen(n, fmt, le) == IF fmt = 64 THEN <<255, 255, 255, 255>> \o Fixed(n, 8, le) ELSE Fixed(n, 4, le)
EncHeader(h, bodyLen) ==
    LET w == Word(h.fmt)
        rest == Fixed(h.ver, 2, h.le)
                \o (IF h.ver = 5 THEN <<h.ut, h.asz>> \o Fixed(0, w, h.le) ELSE Fixed(0, w, h.le) \o <<h.asz>>)
                \o (IF HasHdrDwoId(h) THEN Lay(DwoIdV, h.le) ELSE <<>>) IN
    InitLen(Len(rest) + bodyLen, h.fmt, h.le) \o rest
UnitKind(h) == IF h.ver < 5 THEN "Compilation" ELSE <<"Compilation", "Type", "Partial", "Skeleton", "SplitCompilation">>[h.ut]

(* an attribute is [name, form, v]; v is a BV8, or the bytes of a DW_FORM_string *)
FixedSize(f, h) == CASE f = FM.addr -> h.asz [] f = FM.data1 -> 1 [] f = FM.data2 -> 2 [] f = FM.data4 -> 4
                     [] f = FM.data8 -> 8
                     [] f \in {FM.strp, FM.sec_offset, FM.strp_sup, FM.line_strp, FM.GNU_strp_alt} -> Word(h.fmt)
                     [] f \in {FM.strx1, FM.addrx1} -> 1 [] f \in {FM.strx2, FM.addrx2} -> 2
                     [] f \in {FM.strx3, FM.addrx3} -> 3 [] f \in {FM.strx4, FM.addrx4} -> 4
IsUlebForm(f) == f \in {FM.udata, FM.strx, FM.addrx, FM.GNU_addr_index, FM.GNU_str_index}
EncVal(a, h) == IF a.form = FM.string THEN a.v \o <<0>>
                ELSE IF IsUlebForm(a.form) THEN EncU(a.v)
                ELSE Lay(Trunc(a.v, FixedSize(a.form, h)), h.le)
(* u.body: "die" (the root DIE), "null" (a null entry only), "empty" (no bytes) *)
EncBody(u) == CASE u.body = "die" -> <<1>> \o FlatS([i \in DOMAIN u.attrs |-> EncVal(u.attrs[i], u.h)])
                [] u.body = "null" -> <<0>>
                [] u.body = "empty" -> <<>>
EncInfo(u) == LET b == EncBody(u) IN EncHeader(u.h, Len(b)) \o b
EncAbbrev(u) == EncAbbrevTable(<<[code |-> <<1>>, tag |-> u.tag, hc |-> FALSE,
                                  attrs |-> [i \in DOMAIN u.attrs |-> [name |-> u.attrs[i].name, form |-> u.attrs[i].form]]]>>)

(* a minimal DWARF 4 line program header (no directories, no files, opcode_base 1) *)
LineHeader(le) == Fixed(14, 4, le) \o Fixed(4, 2, le) \o Fixed(8, 4, le) \o <<1, 1, 1, 251, 14, 1, 0, 0>>
(* .debug_str_offsets / .debug_addr contribution headers (DWARF 5) *)
StrOffsetsHeader(n, fmt, le) == InitLen(4 + n * Word(fmt), fmt, le) \o Fixed(5, 2, le) \o <<0, 0>>
AddrHeader(n, asz, fmt, le) == InitLen(4 + n * asz, fmt, le) \o Fixed(5, 2, le) \o <<asz, 0>>
ListsHeaderSize(fmt) == InitLenSize(fmt) + 2 + 1 + 1 + 4     \* .debug_rnglists / .debug_loclists

(* -------------------- attribute values handed to Unit::new -------------- *)
(* allow_section_offset for the names used here: DW_AT_stmt_list only *)
AllowSecOff(name) == name = AT.stmt_list
ZT(v, n) == ZExt(Trunc(v, n), 8)
Raw(a, h) ==
    LET f == a.form
        w == Word(h.fmt) IN
    CASE f = FM.addr -> [k |-> "Addr", v |-> ZT(a.v, h.asz)]
      [] f = FM.string -> [k |-> "String", s |-> a.v]
      [] f = FM.strp -> [k |-> "DebugStrRef", v |-> ZT(a.v, w)]
      [] f \in {FM.strp_sup, FM.GNU_strp_alt} -> [k |-> "DebugStrRefSup", v |-> ZT(a.v, w)]
      [] f = FM.line_strp -> [k |-> "DebugLineStrRef", v |-> ZT(a.v, w)]
      [] f \in {FM.strx, FM.GNU_str_index} -> [k |-> "DebugStrOffsetsIndex", v |-> a.v]
      [] f \in {FM.strx1, FM.strx2, FM.strx3, FM.strx4} -> [k |-> "DebugStrOffsetsIndex", v |-> ZT(a.v, FixedSize(f, h))]
      [] f \in {FM.addrx, FM.GNU_addr_index} -> [k |-> "DebugAddrIndex", v |-> a.v]
      [] f \in {FM.addrx1, FM.addrx2, FM.addrx3, FM.addrx4} -> [k |-> "DebugAddrIndex", v |-> ZT(a.v, FixedSize(f, h))]
      [] f = FM.sec_offset -> [k |-> "SecOffset", v |-> ZT(a.v, w)]
      [] f = FM.data4 -> IF h.fmt = 32 /\ AllowSecOff(a.name) THEN [k |-> "SecOffset", v |-> ZT(a.v, 4)]
                         ELSE [k |-> "Data4", v |-> ZT(a.v, 4)]
      [] f = FM.data8 -> IF h.fmt = 64 /\ AllowSecOff(a.name) THEN [k |-> "SecOffset", v |-> a.v]
                         ELSE [k |-> "Data8", v |-> a.v]
      [] f = FM.data1 -> [k |-> "Data1", v |-> ZT(a.v, 1)]
      [] f = FM.data2 -> [k |-> "Data2", v |-> ZT(a.v, 2)]
      [] f = FM.udata -> [k |-> "Udata", v |-> a.v]
(* Attribute::value(): class conversion by attribute name *)
Norm(a, h) ==
    LET r == Raw(a, h) IN
    IF r.k = "SecOffset" THEN
        [r EXCEPT !.k = CASE a.name = AT.stmt_list -> "DebugLineRef"
                          [] a.name = AT.str_offsets_base -> "DebugStrOffsetsBase"
                          [] a.name \in {AT.addr_base, AT.GNU_addr_base} -> "DebugAddrBase"
                          [] a.name \in {AT.rnglists_base, AT.GNU_ranges_base} -> "DebugRngListsBase"
                          [] a.name = AT.loclists_base -> "DebugLocListsBase"
                          [] OTHER -> "SecOffset"]
    ELSE IF a.name = AT.GNU_dwo_id /\ r.k \in {"Data1", "Data2", "Data4", "Data8", "Udata"} THEN [k |-> "DwoId", v |-> r.v]
    ELSE r

(* ======================= the functions AS CODED ========================= *)
RECURSIVE NulAt(_, _)
NulAt(b, i) == IF i > Len(b) THEN 0 ELSE IF b[i] = 0 THEN i ELSE NulAt(b, i + 1)
(* DebugStr::get_str / DebugLineStr::get_str: skip(offset), read_null_terminated_slice *)
GetStr(sec, off) ==
    IF ULt(N8(Len(sec)), off) THEN E("UnexpectedEof")
    ELSE LET p == ToNat(off) + 1
             z == NulAt(sec, p) IN
         IF z = 0 THEN E("UnexpectedEof") ELSE [s |-> SubSeq(sec, p, z - 1)]
(* the common shape of get_str_offset / get_address:                        *)
(*   input.skip(base)?; off = index.checked_mul(w).ok_or(UnsupportedOffset)?;*)
(*   input.skip(off)?; input.read_<w bytes>()                                *)
(* returns the 0-based position of the entry                                 *)
EntryCoded(sec, base, idx, w) ==
    IF ULt(N8(Len(sec)), base) THEN E("UnexpectedEof")
    ELSE LET rem  == Len(sec) - ToNat(base)
             prod == MulWide(idx, N8(w)) IN                     \* the full 128-bit product
         IF ~IsZero(SubSeq(prod, 9, 16)) THEN E("UnsupportedOffset")        \* u64::checked_mul
         ELSE LET off == Trunc(prod, 8) IN
              IF ULt(N8(rem), off) THEN E("UnexpectedEof")
              ELSE IF rem - ToNat(off) < w THEN E("UnexpectedEof")
              ELSE [p |-> ToNat(base) + ToNat(off)]
GetStrOffset(sec, fmt, base, idx, le) ==
    LET w == Word(fmt)
        e == EntryCoded(sec, base, idx, w) IN
    IF IsErr(e) THEN e ELSE Some(ZExt(Lay(SubSeq(sec, e.p + 1, e.p + w), le), 8))
GetAddress(sec, asz, base, idx, le) ==
    LET e == EntryCoded(sec, base, idx, asz) IN
    IF IsErr(e) THEN e ELSE Some(ZExt(Lay(SubSeq(sec, e.p + 1, e.p + asz), le), 8))

(* D = [str, line_str, str_offsets, addr, line, ranges, rnglists, ft, sup]; sup = None or [str]   *)
(* U = [h, name, comp_dir, low_pc, sob, ab, llb, rlb, lp, dwo_id, attrs]                          *)
StringOffset(D, U, idx) == GetStrOffset(D.str_offsets, U.h.fmt, U.sob, idx, U.h.le)
Address(D, U, idx) == GetAddress(D.addr, U.h.asz, U.ab, idx, U.h.le)
SupString(D, off) == IF IsNone(D.sup) THEN E("ExpectedStringAttributeValue") ELSE GetStr(D.sup.str, off)
AttrString(D, U, v) ==
    CASE v.k = "String" -> [s |-> v.s]
      [] v.k = "DebugStrRef" -> GetStr(D.str, v.v)
      [] v.k = "DebugStrRefSup" -> SupString(D, v.v)
      [] v.k = "DebugLineStrRef" -> GetStr(D.line_str, v.v)
      [] v.k = "DebugStrOffsetsIndex" -> (LET o == StringOffset(D, U, v.v) IN IF IsErr(o) THEN o ELSE GetStr(D.str, o.v))
      [] OTHER -> E("ExpectedStringAttributeValue")
AttrLineString(D, v) ==
    CASE v.k = "String" -> [s |-> v.s]
      [] v.k = "DebugStrRef" -> GetStr(D.str, v.v)
      [] v.k = "DebugStrRefSup" -> SupString(D, v.v)
      [] v.k = "DebugLineStrRef" -> GetStr(D.line_str, v.v)
      [] OTHER -> E("ExpectedStringAttributeValue")
AttrAddress(D, U, v) ==
    CASE v.k = "Addr" -> Some(v.v)
      [] v.k = "DebugAddrIndex" -> Address(D, U, v.v)
      [] OTHER -> None
RangesOffsetFromRaw(D, U, raw) == IF D.ft = "Dwo" /\ U.h.ver < 5 THEN Add(raw, U.rlb) ELSE raw

(* default_for_encoding_and_file *)
DefaultStrOffsetsBase(h, ft) == IF h.ver >= 5 /\ ft = "Dwo" THEN N8(InitLenSize(h.fmt) + 2 + 2) ELSE N8(0)
DefaultListsBase(h, ft) == IF h.ver >= 5 /\ ft = "Dwo" THEN N8(ListsHeaderSize(h.fmt)) ELSE N8(0)

(* DebugLine::program on this model's .debug_line: D.line = [bytes, starts]; a header starts at *)
(* each offset in `starts`; other offsets used by the model are at or beyond the end            *)
LineProgram(D, off, asz, comp_dir, name) ==
    IF ULt(N8(Len(D.line.bytes)), off) THEN E("UnexpectedEof")
    ELSE IF ToNat(off) \in D.line.starts THEN [off |-> off, asz |-> asz, dir0 |-> comp_dir, file0 |-> name]
    ELSE E("UnexpectedEof")
OptS(o) == IF IsNone(o) THEN None ELSE [s |-> o.v]

(* the attribute loop of Unit::new_with_abbreviations *)
RECURSIVE Scan(_, _, _, _)
Scan(attrs, i, acc, h) ==
    IF i > Len(attrs) THEN acc
    ELSE LET a == attrs[i]
             v == Norm(a, h) IN
         Scan(attrs, i + 1,
              CASE a.name = AT.name -> [acc EXCEPT !.name = Some(v)]
                [] a.name = AT.comp_dir -> [acc EXCEPT !.comp_dir = Some(v)]
                [] a.name = AT.low_pc -> [acc EXCEPT !.low_pc = Some(v)]
                [] a.name = AT.stmt_list -> IF v.k = "DebugLineRef" THEN [acc EXCEPT !.lpo = Some(v.v)] ELSE acc
                [] a.name = AT.str_offsets_base -> IF v.k = "DebugStrOffsetsBase" THEN [acc EXCEPT !.sob = v.v] ELSE acc
                [] a.name \in {AT.addr_base, AT.GNU_addr_base} -> IF v.k = "DebugAddrBase" THEN [acc EXCEPT !.ab = v.v] ELSE acc
                [] a.name = AT.loclists_base -> IF v.k = "DebugLocListsBase" THEN [acc EXCEPT !.llb = v.v] ELSE acc
                [] a.name \in {AT.rnglists_base, AT.GNU_ranges_base} -> IF v.k = "DebugRngListsBase" THEN [acc EXCEPT !.rlb = v.v] ELSE acc
                [] a.name = AT.GNU_dwo_id -> IF IsNone(acc.dwo_id) /\ v.k = "DwoId" THEN [acc EXCEPT !.dwo_id = Some(v.v)] ELSE acc
                [] OTHER -> acc,
              h)
UnitNew(D, u) ==
    IF u.body # "die" THEN E("MissingUnitDie")
    ELSE
    LET h == u.h
        acc == Scan(u.attrs, 1,
                    [name |-> None, comp_dir |-> None, low_pc |-> None, lpo |-> None,
                     sob |-> DefaultStrOffsetsBase(h, D.ft), ab |-> N8(0),
                     llb |-> DefaultListsBase(h, D.ft), rlb |-> DefaultListsBase(h, D.ft),
                     dwo_id |-> IF HasHdrDwoId(h) THEN Some(DwoIdV) ELSE None], h)
        U0 == [h |-> h, attrs |-> u.attrs, name |-> None, comp_dir |-> None, low_pc |-> N8(0),
               sob |-> acc.sob, ab |-> acc.ab, llb |-> acc.llb, rlb |-> acc.rlb, lp |-> None, dwo_id |-> acc.dwo_id]
        Opt(U, o) == IF IsNone(o) THEN None
                     ELSE LET r == AttrString(D, U, o.v) IN IF IsErr(r) THEN None ELSE Some(r.s)     \* .ok()
        U1 == [U0 EXCEPT !.name = Opt(U0, acc.name)]
        U2 == [U1 EXCEPT !.comp_dir = Opt(U1, acc.comp_dir)]
        lp == IF IsNone(acc.lpo) THEN None
              ELSE LineProgram(D, acc.lpo.v, h.asz, OptS(U2.comp_dir), OptS(U2.name))
        U3 == [U2 EXCEPT !.lp = lp]
        lo == IF IsNone(acc.low_pc) THEN None ELSE AttrAddress(D, U3, acc.low_pc.v) IN
    IF IsErr(lp) THEN lp
    ELSE IF IsErr(lo) THEN lo
    ELSE IF IsNone(lo) THEN U3 ELSE [U3 EXCEPT !.low_pc = lo.v]

(* Unit::dwo_name: the first attribute of the version's name, normalized; then attr_string *)
DwoNameAttr(U) ==
    LET n == IF U.h.ver < 5 THEN AT.GNU_dwo_name ELSE AT.dwo_name
        S == {i \in DOMAIN U.attrs : U.attrs[i].name = n} IN
    IF S = {} THEN None ELSE Some(Norm(U.attrs[SetMin(S)], U.h))

(* Dwarf::make_dwo and Unit::copy_relocated_attributes *)
MakeDwo(Dd, P) == [Dd EXCEPT !.ft = "Dwo", !.addr = P.addr, !.ranges = P.ranges, !.sup = P.sup]
CopyRelocated(U, S) == [U EXCEPT !.low_pc = S.low_pc, !.ab = S.ab,
                                 !.rlb = IF U.h.ver < 5 THEN S.rlb ELSE @]

(* ============================ the MEANING =============================== *)
(* the string at an offset: the bytes before the first NUL at or after it *)
MStrAt(sec, off) ==
    LET nuls == {z \in 1..Len(sec) : sec[z] = 0 /\ ULe(off, N8(z - 1))} IN
    IF nuls = {} THEN E("no string") ELSE [s |-> SubSeq(sec, ToNat(off) + 1, SetMin(nuls) - 1)]
(* entry idx of the table of w-byte entries at base: exact arithmetic (17 bytes hold 2^64 + 2^64 * 8 + 8) *)
MEntry(sec, base, idx, w, le) ==
    LET pos == Add(ZExt(base, 17), Mul(ZExt(idx, 17), FromNat(w, 17)))
        end == Add(pos, FromNat(w, 17)) IN
    IF ULe(end, FromNat(Len(sec), 17)) THEN Some(ZExt(Lay(SubSeq(sec, ToNat(pos) + 1, ToNat(pos) + w), le), 8))
    ELSE E("no entry")
MAttrString(D, U, v) ==
    IF v.k = "String" THEN [s |-> v.s]
    ELSE IF v.k = "DebugStrRef" THEN MStrAt(D.str, v.v)
    ELSE IF v.k = "DebugLineStrRef" THEN MStrAt(D.line_str, v.v)
    ELSE IF v.k = "DebugStrRefSup" THEN (IF IsNone(D.sup) THEN E("no supplementary file") ELSE MStrAt(D.sup.str, v.v))
    ELSE IF v.k = "DebugStrOffsetsIndex" THEN
         (LET e == MEntry(D.str_offsets, U.sob, v.v, Word(U.h.fmt), U.h.le) IN IF IsErr(e) THEN e ELSE MStrAt(D.str, e.v))
    ELSE E("not a string")
MAttrAddress(D, U, v) ==
    IF v.k = "Addr" THEN Some(v.v)
    ELSE IF v.k = "DebugAddrIndex" THEN MEntry(D.addr, U.ab, v.v, U.h.asz, U.h.le)
    ELSE None
(* a unit field: the value of the last root attribute with one of the names and the class, else the default *)
MField(u, names, kind, default) ==
    LET S == {i \in DOMAIN u.attrs : u.attrs[i].name \in names /\ Norm(u.attrs[i], u.h).k = kind} IN
    IF S = {} THEN default ELSE Norm(u.attrs[SetMax(S)], u.h).v
MLastNamed(u, name) ==
    LET S == {i \in DOMAIN u.attrs : u.attrs[i].name = name} IN
    IF S = {} THEN None ELSE Some(Norm(u.attrs[SetMax(S)], u.h))
MUnit(D, u) ==
    IF u.body # "die" THEN E("no root entry")
    ELSE
    LET h == u.h
        split5 == h.ver >= 5 /\ D.ft = "Dwo"          \* a DWARF 5 .dwo: one contribution per section, bases implied
        B == [h |-> h, attrs |-> u.attrs,
              sob |-> MField(u, {AT.str_offsets_base}, "DebugStrOffsetsBase",
                             N8(IF split5 THEN Len(StrOffsetsHeader(0, h.fmt, h.le)) ELSE 0)),
              ab  |-> MField(u, {AT.addr_base, AT.GNU_addr_base}, "DebugAddrBase", N8(0)),
              llb |-> MField(u, {AT.loclists_base}, "DebugLocListsBase", N8(IF split5 THEN ListsHeaderSize(h.fmt) ELSE 0)),
              rlb |-> MField(u, {AT.rnglists_base, AT.GNU_ranges_base}, "DebugRngListsBase", N8(IF split5 THEN ListsHeaderSize(h.fmt) ELSE 0))]
        Str(name) == LET a == MLastNamed(u, name) IN
                     IF IsNone(a) THEN None
                     ELSE LET r == MAttrString(D, B, a.v) IN IF IsErr(r) THEN None ELSE Some(r.s)
        ids == {i \in DOMAIN u.attrs : u.attrs[i].name = AT.GNU_dwo_id /\ Norm(u.attrs[i], h).k = "DwoId"}
        lps == {i \in DOMAIN u.attrs : u.attrs[i].name = AT.stmt_list /\ Norm(u.attrs[i], h).k = "DebugLineRef"}
        lpo == IF lps = {} THEN None ELSE Some(Norm(u.attrs[SetMax(lps)], h).v)
        lpok == IsNone(lpo) \/ (ULe(lpo.v, N8(Len(D.line.bytes))) /\ ToNat(lpo.v) \in D.line.starts)
        low == LET a == MLastNamed(u, AT.low_pc) IN IF IsNone(a) THEN None ELSE MAttrAddress(D, B, a.v) IN
    IF ~lpok THEN E("no line program at DW_AT_stmt_list")
    ELSE IF IsErr(low) THEN E("DW_AT_low_pc is not resolvable")
    ELSE B @@ [name |-> Str(AT.name), comp_dir |-> Str(AT.comp_dir),
               low_pc |-> IF IsNone(low) THEN N8(0) ELSE low.v,
               lp |-> IF IsNone(lpo) THEN None
                      ELSE [off |-> lpo.v, asz |-> h.asz, dir0 |-> OptS(Str(AT.comp_dir)), file0 |-> OptS(Str(AT.name))],
               dwo_id |-> IF HasHdrDwoId(h) THEN Some(DwoIdV)
                          ELSE IF ids = {} THEN None ELSE Some(Norm(u.attrs[SetMin(ids)], h).v)]
(* the split unit of a skeleton S (in parent file P), loaded from the file Dd: *)
(* strings and lists from the .dwo, addresses through the skeleton's base in   *)
(* the parent's .debug_addr, pre-DWARF 5 ranges relative to the skeleton's     *)
(* DW_AT_GNU_ranges_base in the parent's .debug_ranges, the parent's           *)
(* supplementary file                                                          *)
MSplitFile(Dd, P) == [str |-> Dd.str, line_str |-> Dd.line_str, str_offsets |-> Dd.str_offsets, line |-> Dd.line,
                      rnglists |-> Dd.rnglists, addr |-> P.addr, ranges |-> P.ranges, sup |-> P.sup, ft |-> "Dwo"]
MSplitUnit(Dd, P, S, u) ==
    LET F == MSplitFile(Dd, P)
        U == MUnit(F, u) IN
    IF IsErr(U) \/ IsErr(S) THEN U
    ELSE [U EXCEPT !.low_pc = S.low_pc, !.ab = S.ab, !.rlb = IF u.h.ver < 5 THEN S.rlb ELSE @]
MRangesOffset(D, U, raw) == IF D.ft = "Dwo" /\ U.h.ver < 5
                            THEN Trunc(Add(ZExt(raw, 9), ZExt(U.rlb, 9)), 8)      \* modulo 2^64 (usize wrapping_add)
                            ELSE raw

(* ============================ observations ============================== *)
ObsUnit(U) == IF IsErr(U) THEN E(U.err)
              ELSE [name |-> OptS(U.name), comp_dir |-> OptS(U.comp_dir), low_pc |-> U.low_pc,
                    sob |-> U.sob, ab |-> U.ab, llb |-> U.llb, rlb |-> U.rlb, lp |-> U.lp, dwo_id |-> U.dwo_id]
ObsHeader(h) == [ver |-> h.ver, fmt |-> h.fmt, asz |-> h.asz, type |-> UnitKind(h)]
Resolve(D, U, v) == [str |-> AttrString(D, U, v), addr |-> AttrAddress(D, U, v), lstr |-> AttrLineString(D, v)]
MResolve(D, U, v) == [str |-> MAttrString(D, U, v), addr |-> MAttrAddress(D, U, v),
                      lstr |-> IF v.k = "DebugStrOffsetsIndex" THEN E("needs a unit") ELSE MAttrString(D, U, v)]
AnyErrs(r) == [f \in DOMAIN r |-> AnyErr(r[f])]
ObsAttr(D, U, a) == LET v == Norm(a, U.h) IN Resolve(D, U, v) @@ [name |-> a.name, kind |-> v.k]
ObsDwoName(D, U) == LET o == DwoNameAttr(U) IN
                    IF IsNone(o) THEN None ELSE [kind |-> o.v.k, str |-> AttrString(D, U, o.v)]
(* a probe is [k, v]: a value constructed by the caller *)
ProbeVal(p) == CASE p.k = "strx" -> [k |-> "DebugStrOffsetsIndex", v |-> p.v]
                 [] p.k = "strp" -> [k |-> "DebugStrRef", v |-> p.v]
                 [] p.k = "sup" -> [k |-> "DebugStrRefSup", v |-> p.v]
                 [] p.k = "line_strp" -> [k |-> "DebugLineStrRef", v |-> p.v]
                 [] p.k = "addrx" -> [k |-> "DebugAddrIndex", v |-> p.v]
                 [] p.k = "addr" -> [k |-> "Addr", v |-> p.v]
                 [] p.k = "udata" -> [k |-> "Udata", v |-> p.v]
ObsProbe(D, U, p) == CASE p.k = "stroff" -> [off |-> StringOffset(D, U, p.v)]
                       [] p.k = "address" -> [addr |-> Address(D, U, p.v)]
                       [] p.k = "raw_range" -> [off |-> Some(RangesOffsetFromRaw(D, U, p.v))]
                       [] OTHER -> Resolve(D, U, ProbeVal(p))
MObsProbe(D, U, p) == CASE p.k = "stroff" -> [off |-> MEntry(D.str_offsets, U.sob, p.v, Word(U.h.fmt), U.h.le)]
                        [] p.k = "address" -> [addr |-> MEntry(D.addr, U.ab, p.v, U.h.asz, U.h.le)]
                        [] p.k = "raw_range" -> [off |-> Some(MRangesOffset(D, U, p.v))]
                        [] OTHER -> MResolve(D, U, ProbeVal(p))
(* everything the harness reports about the first unit of a file *)
Observe(D, U, u, probes) ==
    IF IsErr(U) THEN [hdr |-> ObsHeader(u.h), unit |-> E(U.err)]
    ELSE [hdr |-> ObsHeader(u.h), unit |-> ObsUnit(U), dwo_name |-> ObsDwoName(D, U),
          attrs |-> [i \in DOMAIN u.attrs |-> ObsAttr(D, U, u.attrs[i])],
          probes |-> [i \in DOMAIN probes |-> ObsProbe(D, U, probes[i])],
          file_type |-> D.ft]
=============================================================================
