------------------------------ MODULE MCLists ------------------------------
(***************************************************************************)
(* Bounded exploration for C08 at address size 1 (an 8-bit target:         *)
(* addresses 0..255, tombstones 0xfe / 0xff).                              *)
(*                                                                         *)
(* List mode (InitL / NextL / InvL): one state per (family, unit base,     *)
(* flavour, list).  Families: legacy pair format of .debug_ranges and      *)
(* .debug_loc (v2-4), DW_RLE (v5), DW_LLE (v5), GNU split-DWARF DW_LLE     *)
(* (v4 .dwo).  The first entry ranges over the full boundary alphabet,     *)
(* longer lists over the slim alphabet.  The invariant checks, inside TLC, *)
(*   - raw iteration of the encoded list = the list (for representable     *)
(*     entries), whatever follows the terminator;                          *)
(*   - every yielded range non-empty and below the tombstone (any list,    *)
(*     any flavour incl. truncated / unterminated sections);               *)
(*   - for well-formed lists the machine as coded = the standard's         *)
(*     resolution (Lists!StdResolve);                                      *)
(* and prints one replay case with the expected raw and resolved items.    *)
(*                                                                         *)
(* Die mode (InitD / NextD / InvD): one state per (version class, format,  *)
(* dwo, root-DIE attribute sequence) over fixed .debug_addr / list         *)
(* sections; expected Unit::new fields, attr_ranges_offset /               *)
(* attr_locations_offset / attr_ranges / attr_locations per attribute,     *)
(* die_ranges and unit_ranges.                                             *)
(***************************************************************************)
EXTENDS Lists, TLC, Json
CONSTANTS MaxLen,     \* longest list over the slim alphabet
          FlavLen,    \* longest list for the non-default flavours (big endian, truncated, ...)
          Bases,      \* unit base addresses (as integers) for lists longer than 1
          CoreFrom,   \* lists of this length or longer are drawn from the core alphabet
          DieLen,     \* longest attribute sequence over the full attribute alphabet
          DieSlimLen, \* longest attribute sequence over the slim attribute alphabet
          DieCoreFrom \* attribute sequences of this length or longer use the core attribute alphabet
VARIABLE c

(*------------------------------------------------------------------------*)
(* Boundary values, symbolic in the address size: M = all-ones of the      *)
(* address size (0xff at size 1), T1 = M-1 and T2 = M-2 (0xfe is the first  *)
(* tombstone, 0xfd the last ordinary address), H = M >> 1, P1 = M+1,        *)
(* P2 = M+2 (beyond the address space: wrap-around operands).               *)
U64M1 == Ones(8)
U64M2 == Sub(Ones(8), One(8))
Val(asz, s) ==
    LET M == OnesSized(asz) IN
    CASE s = "0" -> Z8 [] s = "1" -> N8(1) [] s = "2" -> N8(2) [] s = "3" -> N8(3) [] s = "16" -> N8(16)
      [] s = "H" -> Shr(M, 1) [] s = "T2" -> Sub(M, N8(2)) [] s = "T1" -> Sub(M, N8(1)) [] s = "M" -> M
      [] s = "P1" -> Add(M, N8(1)) [] s = "P2" -> Add(M, N8(2)) [] s = "U1" -> U64M1 [] s = "U2" -> U64M2
AvS == {"0", "1", "H", "T2", "T1", "M"}                       \* boundary addresses
UvS == {"0", "1", "2", "H", "T2", "T1", "M", "P1", "P2", "U1", "U2"}   \* ULEB operands
AllBases == AvS
Av(asz) == {Val(asz, x) : x \in AvS}
Uv(asz) == {Val(asz, x) : x \in UvS}
Wv == {N8(0), N8(1), N8(3), N8(256), <<255, 255, 255, 255, 0, 0, 0, 0>>}          \* u32 length (GNU)
(* .debug_addr for list mode: two junk bytes, then six addresses *)
TabS == <<"16", "1", "T2", "T1", "M", "0">>
TabInts == [i \in DOMAIN TabS |-> ToNat(Val(1, TabS[i]))]       \* the table at address size 1, as integers
AddrFor(cf) == [sec |-> <<238, 238>> \o Concat([i \in DOMAIN TabS |-> Fld(Val(cf.asz, TabS[i]), cf.asz, cf.le)]),
                base |-> N8(2)]
Huge61 == <<0, 0, 0, 0, 0, 0, 0, 32>>                           \* 2^61: times 8 leaves u64
Iv  == {N8(n) : n \in 0..6} \cup {<<0, 0, 0, 0, 1, 0, 0, 0>>, Huge61}   \* 6, 2^32 and 2^61 are out of bounds
Ivs == {N8(0), N8(2), N8(3), N8(6)}

Fams == {"rng-bare", "rng-rle", "loc-bare", "loc-gnu", "loc-lle"}
FamCf(f, le, asz) ==
    CASE f = "rng-bare" -> [fam |-> "rng", ver |-> 4, asz |-> asz, fmt |-> 32, dwo |-> FALSE, le |-> le]
      [] f = "rng-rle"  -> [fam |-> "rng", ver |-> 5, asz |-> asz, fmt |-> 32, dwo |-> FALSE, le |-> le]
      [] f = "loc-bare" -> [fam |-> "loc", ver |-> 4, asz |-> asz, fmt |-> 32, dwo |-> FALSE, le |-> le]
      [] f = "loc-gnu"  -> [fam |-> "loc", ver |-> 4, asz |-> asz, fmt |-> 32, dwo |-> TRUE, le |-> le]
      [] f = "loc-lle"  -> [fam |-> "loc", ver |-> 5, asz |-> asz, fmt |-> 32, dwo |-> FALSE, le |-> le]
(* configurations under which the same bytes must give the same results;  *)
(* the harness replays the case under each of them                         *)
FamVers(f) == IF f \in {"rng-bare", "loc-bare", "loc-gnu"} THEN {2, 3, 4} ELSE {5}
(* (the section-level range list API has no .dwo variant) *)
FamDwos(f) == CASE f \in {"rng-bare", "rng-rle", "loc-bare"} -> {FALSE}
                [] f = "loc-lle" -> {FALSE, TRUE} [] f = "loc-gnu" -> {TRUE}

(* expression bytes: full alphabet tries three shapes, slim uses one that *)
(* depends on the position so that a mis-associated expression shows       *)
DataFull == {<<>>, <<156>>, <<145, 127>>}
DataAt(n) == <<48 + n>>

FullAlpha(cf) ==
    LET d(k) == IF HasData(k, cf) THEN DataAt(1) ELSE <<>>
        A  == Av(cf.asz)
        U  == Uv(cf.asz)
        Ls == IF cf.fam = "loc" /\ cf.ver < 5 THEN Wv ELSE U
        raw == IF ListFormat(cf) = "bare" THEN
                   {Ent("pair", a, b, d("pair")) : a \in A, b \in A}
                   \cup {Ent("base", a, Z8, <<>>) : a \in A}
                   \cup (IF cf.fam = "loc" THEN {Ent("pair", N8(1), N8(2), dd) : dd \in DataFull} ELSE {})
               ELSE
                   {Ent("base", a, Z8, <<>>) : a \in A}
                   \cup {Ent("basex", i, Z8, <<>>) : i \in Iv}
                   \cup {Ent("sxex", i, j, d("sxex")) : i \in Ivs, j \in Ivs}
                   \cup {Ent("sxlen", i, l, d("sxlen")) : i \in Ivs, l \in Ls}
                   \cup {Ent("opair", a, b, d("opair")) : a \in U, b \in U}
                   \cup {Ent("se", a, b, d("se")) : a \in A, b \in A}
                   \cup {Ent("slen", a, l, d("slen")) : a \in A, l \in U}
                   \cup (IF cf.fam = "loc" THEN {Ent("defloc", Z8, Z8, dd) : dd \in DataFull}
                                                \cup {Ent("opair", N8(1), N8(2), dd) : dd \in DataFull}
                                                \cup {Ent("se", N8(1), N8(2), dd) : dd \in DataFull} ELSE {})
    IN {e \in raw : Representable(e, cf)}

SlimAlpha(cf, n) ==
    LET d(k) == IF HasData(k, cf) THEN DataAt(n) ELSE <<>>
        V(x) == Val(cf.asz, x)
        raw == IF ListFormat(cf) = "bare" THEN
                   {Ent("pair", V(x[1]), V(x[2]), d("pair")) :
                        x \in {<<"0", "1">>, <<"1", "1">>, <<"2", "1">>, <<"1", "M">>, <<"T2", "T1">>, <<"T1", "M">>, <<"0", "M">>, <<"1", "0">>}}
                   \cup {Ent("base", V(a), Z8, <<>>) : a \in {"0", "1", "T2", "T1", "M"}}
               ELSE
                   {Ent("base", V(a), Z8, <<>>) : a \in {"1", "T2", "T1"}}
                   \cup {Ent("basex", N8(i), Z8, <<>>) : i \in {0, 3, 6}}
                   \cup {Ent("opair", V(x[1]), V(x[2]), d("opair")) :
                        x \in {<<"0", "1">>, <<"1", "1">>, <<"2", "1">>, <<"1", "P1">>, <<"T2", "P2">>, <<"U1", "1">>}}
                   \cup {Ent("se", V(x[1]), V(x[2]), d("se")) : x \in {<<"0", "1">>, <<"T2", "T1">>, <<"T1", "M">>, <<"1", "1">>}}
                   \cup {Ent("slen", V(x[1]), V(x[2]), d("slen")) : x \in {<<"T2", "1">>, <<"T2", "3">>, <<"0", "0">>}}
                   \cup {Ent("sxex", N8(x[1]), N8(x[2]), d("sxex")) : x \in {<<0, 2>>, <<6, 0>>}}
                   \cup {Ent("sxlen", N8(x[1]), N8(x[2]), d("sxlen")) : x \in {<<2, 1>>, <<2, 3>>}}
                   \cup (IF cf.fam = "loc" THEN {Ent("defloc", Z8, Z8, d("defloc"))} ELSE {})
    IN {e \in raw : Representable(e, cf)}

(* the core of the slim alphabet, for the longest lists *)
CoreAlpha(cf, n) ==
    LET d(k) == IF HasData(k, cf) THEN DataAt(n) ELSE <<>>
        V(x) == Val(cf.asz, x)
        raw == IF ListFormat(cf) = "bare" THEN
                   {Ent("pair", V(x[1]), V(x[2]), d("pair")) :
                        x \in {<<"0", "1">>, <<"1", "1">>, <<"2", "1">>, <<"1", "M">>, <<"T2", "T1">>, <<"T1", "M">>}}
                   \cup {Ent("base", V(a), Z8, <<>>) : a \in {"1", "T1", "M"}}
               ELSE
                   {Ent("base", V(a), Z8, <<>>) : a \in {"1", "T1"}}
                   \cup {Ent("basex", N8(i), Z8, <<>>) : i \in {0, 6}}
                   \cup {Ent("opair", V(x[1]), V(x[2]), d("opair")) : x \in {<<"0", "1">>, <<"1", "1">>, <<"1", "P1">>, <<"T2", "P2">>}}
                   \cup {Ent("se", V(x[1]), V(x[2]), d("se")) : x \in {<<"0", "1">>, <<"T1", "M">>}}
                   \cup {Ent("slen", V("T2"), N8(3), d("slen")), Ent("sxlen", N8(2), N8(1), d("sxlen"))}
                   \cup (IF cf.fam = "loc" THEN {Ent("defloc", Z8, Z8, d("defloc"))} ELSE {})
    IN {e \in raw : Representable(e, cf)}
(* alphabet of position i in a list that is to reach length m *)
AlphaAt(cf, i, m) == IF m <= 1 THEN FullAlpha(cf) \cup SlimAlpha(cf, 1)
                     ELSE IF m >= CoreFrom THEN CoreAlpha(cf, i) ELSE SlimAlpha(cf, i)

(* flavours: byte order and what surrounds the list in the section *)
(* and, for the wide flavours, the address size (2, 4 or 8 bytes)         *)
Flavs == {"std", "be", "noterm", "trunc1", "trunc2", "asz2", "asz4", "asz8", "asz8be"}
FlavLe(fl) == fl \notin {"be", "asz8be"}
FlavAsz(fl) == CASE fl = "asz2" -> 2 [] fl = "asz4" -> 4 [] fl \in {"asz8", "asz8be"} -> 8 [] OTHER -> 1
FlavCf(f, fl) == FamCf(f, FlavLe(fl), FlavAsz(fl))
Prefix == <<170, 187, 204>>
Suffix == <<4, 1, 2, 0>>          \* would decode as further entries if the terminator were ignored
SecOf(L, cf, fl) ==
    LET full == EncList(L, cf) IN
    CASE fl \in {"std", "be", "asz2", "asz4", "asz8", "asz8be"} -> Prefix \o full \o Suffix
      [] fl = "noterm" -> Prefix \o EncEntries(L, cf)                  \* list runs to the end of the section
      [] fl = "trunc1" -> Prefix \o SubSeq(full, 1, Len(full) - 1)
      [] fl = "trunc2" -> Prefix \o SubSeq(full, 1, IF Len(full) >= 2 THEN Len(full) - 2 ELSE 0)

AllU == UNION {Uv(z) : z \in {1, 2, 4, 8}} \cup Iv \cup Wv
ASSUME \A v \in AllU : ULeb(v) = EncU(v)
ASSUME \A a \in AllU : \A b \in AllU : Lt(a, b) = ULt(a, b)
ASSUME \A z \in {1, 2, 4, 8} : U64Mul(Huge61, z).ovf = (z = 8) /\ \A i \in Ivs : U64Mul(i, z) = [ovf |-> FALSE, v |-> Trunc(MulWide(i, N8(z)), 8)]
InitL == c = [stage |-> 0]
NextL ==
    \/ /\ c.stage = 0
       /\ \E f \in Fams : \E ub \in AllBases : \E fl \in Flavs :
            /\ (fl # "std" => ub = "1")
            /\ c' = [stage |-> 1, f |-> f, ub |-> ub, fl |-> fl, L |-> <<>>]
    \/ /\ c.stage = 1
       /\ LET cf == FlavCf(c.f, c.fl)
              n  == Len(c.L) IN
          /\ n < (IF c.fl = "std" THEN MaxLen ELSE FlavLen)
          /\ (n >= 1 => c.ub \in Bases /\ \A i \in 1..n : c.L[i] \in AlphaAt(cf, i, n + 1))
          /\ \E e \in AlphaAt(cf, n + 1, n + 1) :
                c' = [c EXCEPT !.L = Append(c.L, e)]

(* compact, lossless JSON form of a u64: a number below 2^31, else the byte tuple *)
Cv(v) == IF SmallNat(v) THEN ToNat(v) ELSE v
JEnt(e) == [k |-> e.k, a |-> Cv(e.a), b |-> Cv(e.b), d |-> e.d]
JRaw(r) == IF r.t = "some" THEN [t |-> "some", e |-> JEnt(r.e)] ELSE r
JRes(r) == IF r.t = "some" THEN [t |-> "some", begin |-> Cv(r.begin), end |-> Cv(r.end), d |-> r.d] ELSE r
JRun(run, J(_)) == [open |-> run.open, items |-> [i \in DOMAIN run.items |-> J(run.items[i])]]

(* minimal units (root DIE without attributes) of every version / format / file type /   *)
(* address size / byte order: the harness reads every list case also through the          *)
(* Dwarf-level and UnitRef-level API (raw_ranges / ranges / raw_locations / locations)    *)
(* of such a unit, whose results must equal those of the section-level API                *)
UnitImages ==
    LET cfs == {[fam |-> "rng", ver |-> v, asz |-> z, fmt |-> f, dwo |-> d, le |-> l] :
                    v \in 2..5, z \in {1, 2, 4, 8}, f \in {32, 64}, d \in BOOLEAN, l \in BOOLEAN} IN
    {[cf |-> x, info |-> EncUnit(<<>>, x), abbrev |-> EncAbbrev(<<>>)] : x \in cfs}
InvL0 == c.stage = 0 => PrintT(<<"CASE", ToJson([sys |-> "unitimages", table |-> UnitImages])>>)
InvL ==
    c.stage = 1 =>
    LET cf  == FlavCf(c.f, c.fl)
        sec == SecOf(c.L, cf, c.fl)
        off == N8(Len(Prefix))
        ub  == Val(cf.asz, c.ub)
        AddrL == AddrFor(cf)
        raw == RawRun(sec, off, cf)
        res == ResRun(sec, off, ub, cf, AddrL)
        rep == \A i \in DOMAIN c.L : Representable(c.L[i], cf)
        whole == c.fl \notin {"trunc1", "trunc2"}
        wf  == rep /\ whole /\ cf.asz = 1 /\ StdWF(c.L, ToNat(ub), TabInts, 1)
    IN
    /\ raw.open /\ res.open
    \* raw iteration exposes every encoded entry unchanged
    /\ (rep /\ whole => raw.items = [i \in DOMAIN c.L |-> [t |-> "some", e |-> c.L[i]]])
    \* any input: non-empty, below the tombstone
    /\ AllYieldsOk(res.items, cf)
    \* well-formed lists: the machine as coded = the standard's resolution
    /\ (wf => res.items = StdResolve(c.L, ToNat(ub), TabInts))
    \* the same bytes under every configuration of the family
    /\ (Len(c.L) <= 1 => \A v \in FamVers(c.f) : \A dw \in FamDwos(c.f) :
          LET cf2 == [cf EXCEPT !.ver = v, !.dwo = dw] IN
          ListFormat(cf2) = ListFormat(cf) /\ EncList(c.L, cf2) = EncList(c.L, cf))
    /\ PrintT(<<"CASE", ToJson([sys |-> "list", cf |-> cf, vers |-> FamVers(c.f), dwos |-> FamDwos(c.f),
                                sec |-> sec, off |-> Len(Prefix), ub |-> Cv(ub),
                                addr |-> [sec |-> AddrL.sec, base |-> Cv(AddrL.base)],
                                n |-> Len(c.L), wf |-> wf,
                                raw |-> JRun(raw, JRaw), res |-> JRun(res, JRes)])>>)

(*------------------------------------------------------------------------*)
(* Die mode.                                                               *)
DCf(ver, fmt, dwo) == [fam |-> "rng", ver |-> ver, asz |-> 1, fmt |-> fmt, dwo |-> dwo, le |-> TRUE]
AddrD == <<238, 238, 16, 32, 253, 64>>        \* addr_base 2 -> table <<0x10, 0x20, 0xfd, 0x40>>
RL(cf, i) ==
    IF cf.ver <= 4 THEN
        (IF i = 1 THEN <<Ent("pair", N8(1), N8(5), <<>>), Ent("base", N8(64), Z8, <<>>), Ent("pair", N8(2), N8(3), <<>>)>>
         ELSE <<Ent("pair", N8(16), N8(32), <<>>)>>)
    ELSE
        (IF i = 1 THEN <<Ent("opair", N8(1), N8(5), <<>>), Ent("basex", N8(1), Z8, <<>>), Ent("opair", N8(2), N8(3), <<>>),
                         Ent("sxlen", N8(0), N8(4), <<>>)>>
         ELSE <<Ent("se", N8(16), N8(32), <<>>), Ent("slen", N8(48), N8(2), <<>>)>>)
LLk(cf, i) ==
    IF ListFormat(LocCf(cf)) = "bare" THEN
        (IF i = 1 THEN <<Ent("pair", N8(1), N8(5), <<81>>), Ent("base", N8(64), Z8, <<>>), Ent("pair", N8(2), N8(3), <<82, 83>>)>>
         ELSE <<Ent("pair", N8(16), N8(32), <<84>>)>>)
    ELSE
        (IF i = 1 THEN <<Ent("opair", N8(1), N8(5), <<81>>), Ent("basex", N8(1), Z8, <<>>), Ent("opair", N8(2), N8(3), <<82, 83>>),
                         Ent("sxlen", N8(0), N8(4), <<>>)>>
         ELSE <<Ent("se", N8(16), N8(32), <<84>>), Ent("slen", N8(48), N8(2), <<85>>)>>)
Junk == <<170, 187, 204>>
FileD(cf) ==
    LET rc == RngCf(cf)
        lc == LocCf(cf) IN
    [addr     |-> AddrD,
     ranges   |-> Junk \o EncList(RL([cf EXCEPT !.ver = 4], 1), [rc EXCEPT !.ver = 4]) \o EncList(RL([cf EXCEPT !.ver = 4], 2), [rc EXCEPT !.ver = 4]),
     rnglists |-> EncListsSection(<<EncList(RL([cf EXCEPT !.ver = 5], 1), [rc EXCEPT !.ver = 5]),
                                    EncList(RL([cf EXCEPT !.ver = 5], 2), [rc EXCEPT !.ver = 5])>>, cf),
     loc      |-> LET l4 == [lc EXCEPT !.ver = 4] IN Junk \o EncList(LLk(l4, 1), l4) \o EncList(LLk(l4, 2), l4),
     loclists |-> LET l5 == [lc EXCEPT !.ver = 5] IN
                  EncListsSection(<<EncList(LLk(l5, 1), l5), EncList(LLk(l5, 2), l5)>>, cf)]
(* absolute section offset of list i (1 or 2) for this unit *)
ListOff(cf, fam, i) ==
    LET xc == IF fam = "rng" THEN RngCf(cf) ELSE LocCf(cf)
        l1 == IF fam = "rng" THEN EncList(RL(cf, 1), xc) ELSE EncList(LLk(xc, 1), xc)
        ws == IF cf.fmt = 64 THEN 8 ELSE 4 IN
    IF cf.ver <= 4 THEN Len(Junk) + (IF i = 1 THEN 0 ELSE Len(l1))
    ELSE HeaderSize(cf) + 2 * ws + (IF i = 1 THEN 0 ELSE Len(l1))

At(at, form, v) == [at |-> at, form |-> form, v |-> v]
Huge == <<0, 0, 0, 0, 0, 0, 0, 64>>       \* 2^62: index * word size leaves u64
AttrFull(cf) ==
    {At("low_pc", "addr", N8(16)), At("low_pc", "addr", N8(253)), At("low_pc", "addrx", N8(1)),
     At("low_pc", "addrx", N8(9)), At("low_pc", "data1", N8(5)), At("low_pc", "GNU_addr_index", N8(0)),
     At("high_pc", "addr", N8(48)), At("high_pc", "data1", N8(8)), At("high_pc", "udata", N8(32)),
     At("high_pc", "sdata", Ones(8)), At("high_pc", "data2", N8(300)), At("high_pc", "addrx", N8(3)),
     At("high_pc", "data4", N8(7)), At("high_pc", "sdata", N8(9)),
     At("ranges", "sec_offset", N8(ListOff(cf, "rng", 1))), At("ranges", "sec_offset", N8(ListOff(cf, "rng", 2))),
     At("ranges", "sec_offset", Z8), At("ranges", "sec_offset", N8(200)),
     At("ranges", "data4", N8(ListOff(cf, "rng", 1))), At("ranges", "data8", N8(ListOff(cf, "rng", 2))),
     At("ranges", "rnglistx", N8(0)), At("ranges", "rnglistx", N8(1)), At("ranges", "rnglistx", N8(2)),
     At("ranges", "rnglistx", N8(90)), At("ranges", "udata", N8(3)),
     At("rnglists_base", "sec_offset", N8(HeaderSize(cf))), At("rnglists_base", "sec_offset", N8(HeaderSize(cf) + 4)),
     At("rnglists_base", "data4", N8(HeaderSize(cf))),
     At("GNU_ranges_base", "sec_offset", N8(3)), At("GNU_ranges_base", "sec_offset", U64M1),
     At("addr_base", "sec_offset", N8(2)), At("GNU_addr_base", "sec_offset", N8(2)), At("addr_base", "sec_offset", N8(7)),
     At("loclists_base", "sec_offset", N8(HeaderSize(cf))),
     At("location", "sec_offset", N8(ListOff(cf, "loc", 1))), At("location", "sec_offset", N8(ListOff(cf, "loc", 2))),
     At("location", "data4", N8(ListOff(cf, "loc", 1))), At("location", "data8", N8(ListOff(cf, "loc", 1))),
     At("location", "loclistx", N8(0)), At("location", "loclistx", N8(1)), At("location", "loclistx", N8(7)),
     At("location", "exprloc", <<156>>), At("location", "sec_offset", N8(201)),
     At("name", "data1", N8(1))}
AttrSlim(cf) ==
    {At("low_pc", "addr", N8(16)), At("low_pc", "addrx", N8(1)),
     At("high_pc", "addr", N8(48)), At("high_pc", "data1", N8(8)),
     At("ranges", "sec_offset", N8(ListOff(cf, "rng", 1))), At("ranges", "rnglistx", N8(1)),
     At("ranges", "data4", N8(ListOff(cf, "rng", 2))),
     At("rnglists_base", "sec_offset", N8(HeaderSize(cf))), At("GNU_ranges_base", "sec_offset", N8(3)),
     At("addr_base", "sec_offset", N8(2)),
     At("loclists_base", "sec_offset", N8(HeaderSize(cf))),
     At("location", "sec_offset", N8(ListOff(cf, "loc", 1))), At("location", "loclistx", N8(1))}
AttrCore(cf) ==
    {At("low_pc", "addr", N8(16)), At("high_pc", "data1", N8(8)),
     At("ranges", "sec_offset", N8(ListOff(cf, "rng", 1))), At("ranges", "rnglistx", N8(1)),
     At("rnglists_base", "sec_offset", N8(HeaderSize(cf))), At("GNU_ranges_base", "sec_offset", N8(3)),
     At("addr_base", "sec_offset", N8(2)),
     At("loclists_base", "sec_offset", N8(HeaderSize(cf))), At("location", "loclistx", N8(1))}
(* 64-bit-only extremes: kept out of the product, appended to a fixed prefix *)
AttrExtreme(cf) ==
    {At("ranges", "rnglistx", Huge), At("location", "loclistx", Huge), At("high_pc", "data8", U64M1),
     At("high_pc", "udata", U64M1)}

(* per (version class, format, dwo): sections and attribute alphabets, evaluated once *)
DKey == {4, 5} \X {32, 64} \X BOOLEAN
KCf(k) == DCf(k[1], k[2], k[3])
FileTab == [k \in DKey |-> FileD(KCf(k))]
FullTab == [k \in DKey |-> AttrFull(KCf(k))]
SlimTab == [k \in DKey |-> AttrSlim(KCf(k))]
CoreTab == [k \in DKey |-> AttrCore(KCf(k))]
SlimAt(k, m) == IF m >= DieCoreFrom THEN CoreTab[k] ELSE SlimTab[k]
ExtTab  == [k \in DKey |-> AttrExtreme(KCf(k))]
(* raw iteration at the Dwarf level exposes the encoded entries: for every file type, *)
(* version class and format, the two lists of each section come back unchanged        *)
ASSUME \A k \in DKey : \A i \in {1, 2} :
    LET cf == KCf(k)
        F  == FileTab[k]
        lc == LocCf(cf)
        AsRaw(L) == [j \in DOMAIN L |-> [t |-> "some", e |-> L[j]]] IN
    /\ RawRangesAt(N8(ListOff(cf, "rng", i)), cf, F) = [open |-> TRUE, items |-> AsRaw(RL(cf, i))]
    /\ RawLocationsAt(N8(ListOff(cf, "loc", i)), cf, F) = [open |-> TRUE, items |-> AsRaw(LLk(lc, i))]
InitD == c = [stage |-> 0]
NextD ==
    \/ /\ c.stage = 0
       /\ \E vc \in {4, 5} : \E fmt \in {32, 64} : \E dwo \in BOOLEAN :
            c' = [stage |-> 2, vc |-> vc, fmt |-> fmt, dwo |-> dwo, attrs |-> <<>>, x |-> FALSE]
    \/ /\ c.stage = 2 /\ ~c.x
       /\ LET k == <<c.vc, c.fmt, c.dwo>>
              n == Len(c.attrs) IN
          \/ /\ n < DieLen
             /\ \E a \in FullTab[k] : c' = [c EXCEPT !.attrs = Append(c.attrs, a)]
          \/ /\ n >= DieLen /\ n < DieSlimLen
             /\ \A i \in 1..n : c.attrs[i] \in SlimAt(k, n + 1)
             /\ \E a \in SlimAt(k, n + 1) : c' = [c EXCEPT !.attrs = Append(c.attrs, a)]
          \/ /\ n <= 2 /\ \A i \in 1..n : c.attrs[i] \in SlimTab[k]
             /\ \E a \in ExtTab[k] : c' = [c EXCEPT !.attrs = Append(c.attrs, a), !.x = TRUE]

JOpt(o) == IF ~o.ok THEN [t |-> "err", err |-> o.err]
           ELSE IF ~o.some THEN [t |-> "none"] ELSE [t |-> "some", v |-> Cv(o.v)]
JDie(d) == CASE d.t = "err" -> d
             [] d.t = "single" -> IF d.some THEN [t |-> "single", items |-> <<[t |-> "some", begin |-> Cv(d.begin), end |-> Cv(d.end), d |-> <<>>]>>]
                                  ELSE [t |-> "single", items |-> <<>>]
             [] d.t = "list" -> [t |-> "list", items |-> [i \in DOMAIN d.items |-> JRes(d.items[i])]]
ExpAttr(a, cf, F, u) ==
    LET val == AttrValue(a, cf)
        ro  == AttrRangesOffset(val, cf, F, u)
        lo  == AttrLocationsOffset(val, cf, F, u)
        none == [open |-> FALSE, items |-> <<>>] IN
    [at |-> AtCode[a.at], ro |-> JOpt(ro), lo |-> JOpt(lo),
     rr |-> IF ro.ok /\ ro.some THEN JRun(RangesAt(ro.v, cf, F, u), JRes) ELSE none,
     lr |-> IF lo.ok /\ lo.some THEN JRun(LocationsAt(lo.v, cf, F, u), JRes) ELSE none,
     \* the raw iterators of the Dwarf / UnitRef level at the same offsets
     rw |-> IF ro.ok /\ ro.some THEN JRun(RawRangesAt(ro.v, cf, F), JRaw) ELSE none,
     lw |-> IF lo.ok /\ lo.some THEN JRun(RawLocationsAt(lo.v, cf, F), JRaw) ELSE none]
ExpWith(attrs, cf, F, u) ==
    [unit  |-> [t |-> "ok", low_pc |-> Cv(u.low_pc), addr_base |-> Cv(u.addr_base),
                rnglists_base |-> Cv(u.rnglists_base), loclists_base |-> Cv(u.loclists_base)],
     attrs |-> [i \in DOMAIN attrs |-> ExpAttr(attrs[i], cf, F, u)],
     die   |-> JDie(DieRanges(attrs, cf, F, u)),
     raw0  |-> Cv(RangesOffsetFromRaw(N8(5), cf, u))]
ExpD(attrs, cf, F) ==
    LET un == UnitNew(attrs, cf, F) IN
    IF ~un.ok THEN [unit |-> [t |-> "err", err |-> un.err]] ELSE ExpWith(attrs, cf, F, un.u)

(* Split units (dwo states only): the file of the skeleton unit has its own  *)
(* .debug_addr (every address one higher, so that its use shows) and the     *)
(* .debug_ranges; the skeleton's root DIE carries low_pc, an address base    *)
(* and a NON-default ranges base (DW_AT_rnglists_base in v5, which must not  *)
(* reach the split unit; DW_AT_GNU_ranges_base before, which must) and a     *)
(* loclists base (never copied).  Script: make_dwo(parent); Unit::new(dwo    *)
(* unit); copy_relocated_attributes(skeleton unit); then the same queries.   *)
PAddr == <<238, 238, 17, 33, 254, 65>>
SkelAttrs(cf) ==
    IF cf.ver >= 5 THEN
        <<At("low_pc", "addr", N8(33)), At("addr_base", "sec_offset", N8(2)),
          At("rnglists_base", "sec_offset", N8(HeaderSize(cf) + (IF cf.fmt = 64 THEN 8 ELSE 4))),
          At("loclists_base", "sec_offset", N8(HeaderSize(cf) + (IF cf.fmt = 64 THEN 8 ELSE 4)))>>
    ELSE
        <<At("low_pc", "addr", N8(33)), At("GNU_addr_base", "sec_offset", N8(2)), At("GNU_ranges_base", "sec_offset", N8(3))>>
ExpSplit(attrs, cf, F) ==
    LET PF == [F EXCEPT !.addr = PAddr]
        mcf == [cf EXCEPT !.dwo = FALSE]
        sk == UnitNew(SkelAttrs(cf), mcf, PF)          \* the skeleton is a unit of the main file
        F2 == MakeDwo(F, PF)
        un == UnitNew(attrs, cf, F2) IN
    IF ~un.ok THEN [unit |-> [t |-> "err", err |-> un.err]]
    ELSE ExpWith(attrs, cf, F2, CopyRelocated(un.u, sk.u, cf))

InvD ==
    c.stage = 2 =>
    LET cf == DCf(c.vc, c.fmt, c.dwo)
        vers == IF c.vc = 4 THEN {2, 3, 4} ELSE {5}
        vseq == IF c.vc = 4 THEN <<2, 3, 4>> ELSE <<5>>
        F == FileTab[<<c.vc, c.fmt, c.dwo>>]
        e == ExpD(c.attrs, cf, F) IN
    \* versions 2..4 are one class: same expectations (the replay binds every version)
    /\ (Len(c.attrs) <= 1 => \A v \in vers : ExpD(c.attrs, [cf EXCEPT !.ver = v], F) = e)
    \* any input: whatever die_ranges yields from a list is non-empty and below the tombstone
    /\ (e.unit.t = "ok" =>
          LET d == DieRanges(c.attrs, cf, F, UnitNew(c.attrs, cf, F).u) IN
          d.t = "list" => AllYieldsOk(d.items, cf))
    /\ PrintT(<<"CASE", ToJson([sys |-> "die", cf |-> cf,
                                info |-> [i \in DOMAIN vseq |-> [ver |-> vseq[i], bytes |-> EncUnit(c.attrs, [cf EXCEPT !.ver = vseq[i]])]],
                                abbrev |-> EncAbbrev(c.attrs), fk |-> <<c.vc, c.fmt, c.dwo>>, n |-> Len(c.attrs), exp |-> e,
                                split |-> IF c.dwo
                                          THEN <<[pinfo |-> [i \in DOMAIN vseq |-> [ver |-> vseq[i],
                                                               bytes |-> EncUnitT(SkelAttrs(cf), [cf EXCEPT !.ver = vseq[i], !.dwo = FALSE], 4)]],
                                                  pabbrev |-> EncAbbrev(SkelAttrs(cf)), paddr |-> PAddr,
                                                  exp |-> ExpSplit(c.attrs, cf, F)]>>
                                          ELSE <<>>])>>)
    /\ (Len(c.attrs) = 0 => PrintT(<<"CASE", ToJson([sys |-> "file", fk |-> <<c.vc, c.fmt, c.dwo>>, file |-> F])>>))
=============================================================================
