#!/bin/sh
# Offline setup: build the harness binaries (both profiles) against /repo and
# syntax-check every specification.
set -e
cd /verif/harness
export CARGO_NET_OFFLINE=true
cargo build --offline --bins
cargo build --offline --bins --release
cd /verif/spec
for f in *.tla; do
  tla-sany "$f" >/dev/null 2>&1 || { echo "SANY failed: $f"; tla-sany "$f" | tail -20; exit 1; }
done
echo setup ok
