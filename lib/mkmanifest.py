#!/usr/bin/env python3
"""Regenerates MANIFEST.json from the table below (kept in one place so the
manifest is always valid and in step with the checks that exist)."""
import json, os, subprocess
here = os.path.dirname(os.path.dirname(os.path.abspath(__file__)))
ALL = ["C%02d" % i for i in range(1, 21)]
CLAIMS = {
 "C09": dict(
   cat="model_checking", ref="DESIGN.md §5 C09",
   text="TLC enumerates LEB128 byte strings (all strings of length <= 2 over 256 values, class-alphabet strings to length 4/5 and the 9-11 byte frontier) and every fixed-width/sized/initial-length read (all size arguments 0..255, both byte orders, truncations); inside TLC the byte-at-a-time machines as coded are checked against the mathematical meaning on digit lists; every case is replayed on the real readers. Every primitive writer call is recorded and validated by the trace spec LebTrace (decode(bytes)=value, size=len, unrepresentable refused).",
   note="Trusted: TLC, the BV byte-tuple arithmetic (checked against Integers by MCBV in the thorough tier), the harness projection (value as LE byte tuple, bytes consumed). Strings longer than 2 bytes are class-sampled; error kinds are not compared.",
   technique="TLA+ spec Leb/BV; TLC exhaustive case generation replayed on the code + TLC trace validation of writer events"),
 "C07": dict(
   cat="model_checking", ref="DESIGN.md §5 C07",
   text="Expr.tla models gimli's Evaluation as a state machine (decode at arbitrary pc via OpCodec.tla, typed/generic arithmetic on byte-tuple bit-vectors via Value.tla, suspension/resume protocol, pieces, nested calls, iteration limit, storage capacities). TLC explores on an 8-bit target every program up to 2-4 symbols over five alphabet slices (84 symbols) x every resume answer from boundary sets x iteration limits x heap/small storage, checking machine invariants in every state; every terminated behaviour is replayed on the real evaluator and all Requires* payloads and the final pieces/value are compared. All 256 opcode bytes x 13 operand patterns x truncations x 6 encodings are decoded by the spec and compared with Operation::parse. Random programs at address sizes 1/2/4/8 with 64-bit operands are recorded and re-run by the trace spec ExprTrace.",
   note="Trusted: TLC, BV arithmetic (MCBV lemmas), harness projection (generic values mod 2^(8*asz)). IEEE-754 arithmetic is not specified (runs depending on it are compared only up to that point). Exhaustive part is at address size 1; wider sizes are sampled by trace validation. Error kinds other than TooManyIterations are drift.",
   technique="TLA+ state machine Expr/OpCodec/Value; TLC exhaustive behaviours replayed on the code + TLC trace validation of recorded evaluations"),
 "C15": dict(
   cat="model_checking", ref="DESIGN.md §5 C15",
   text="ExprWriter.tla models write::Expression as a builder machine: the meaning of every op_* call in the vocabulary of the reader-side decoding spec (OpCodec.tla), the emission as coded (short forms, GNU opcodes before v5, branch displacements) and which requests have no encoding. TLC enumerates every call sequence up to 2-4 calls over three alphabet slices (~100 calls with boundary operands, references to a base type / earlier / later / other-unit entries, nested entry_value, branches to every index) x encodings x contexts (DIE attribute, location list, CFI) and proves Decode(Emit(calls)) = Mean(calls) and predicted size = emitted length on the model; each sequence is replayed on the real writer, read back, and decoded operations, reference targets (by entry name), branch targets (by operation index), the entries/attributes following the expression and the evaluation result (Expr.tla) are compared. Random 3-40 call sequences are validated by ExprWriterTrace, which decodes the recorded bytes with OpCodec.",
   note="Trusted: TLC, OpCodec/Expr specs (bound to the reader by C07), harness name resolution of reference offsets. A forward unit-relative reference may be refused or encoded; evaluation equivalence only for reference-free programs.",
   technique="TLA+ builder machine ExprWriter composed with OpCodec/Expr; TLC-enumerated call sequences replayed on the writer + TLC trace validation of emitted bytes"),

 "C06": dict(
   cat="model_checking", ref="DESIGN.md §5 C06",
   text="CfiExec.tla models UnwindContext + UnwindTable as coded (row stack, initial_rule optimisation, one action per call-frame instruction, limits) next to a reference semantics written from DWARF 6.4 without the storage optimisations; TLC checks in every explored state that the machine refines the reference, that a limit error is reported exactly where the reference needs more rows/rules than the storage has, and that rows are contiguous and end at the FDE end. Every CIE x FDE program over the DW_CFA alphabet up to the bound is replayed on four storages (2 rows/2 rules, 3/1, heap 4/192, unbounded) and both vendors, with an alignment-factor x address-size grid of 64-bit boundary operands and directed programs hitting 192 rules / 4 rows exactly and by one over; rows (start, end, CFA, every register rule, args size) or the specific error are compared. next_row events recorded from random long programs (address sizes 1/2/4/8, both byte orders) and from the self fixture's .eh_frame are validated by CfiExecTrace.",
   note="Exhaustive up to the stated bounds; beyond that sampled by trace validation. Corpus FDE instruction lists are hints taken from gimli's instructions() iterator. Error kinds other than StackFull / TooManyRegisterRules / CfiInstructionInInvalidContext are compared as 'an error'.",
   technique="TLA+ machine CfiExec with reference semantics (refinement checked by TLC); TLC-generated sections replayed on the code + TLC trace validation of recorded rows"),
 "C10": dict(
   cat="model_checking", ref="DESIGN.md §5 C10",
   text="Reader.tla is a cursor model of the Reader trait with no reader-kind parameter (so all kinds must match one spec); TLC explores it exhaustively for small buffers and <= 3 handles, checking window-safety (0 <= start <= end <= Len), view, partition and offset-id properties on every transition; every transition is replayed on six reader kinds (EndianSlice, EndianRcSlice, EndianArcSlice, EndianReader over a custom CloneStableDeref buffer, RelocateReader with identity relocation over slice and Rc) comparing the result, (offset_from, len, bytes, slice pointer relative to the buffer, offset-id position, borrowed) and buffer reference counts incl. teardown; random 400-1000 step histories on 64-4096 byte buffers with clone/split/drop in any order and whole-section parses (DIEs, line programs) under every kind are validated by ReaderTrace.",
   note="Exhaustive for the listed buffers/slots/arguments; larger buffers by trace validation. Memory safety is observed through pointer ranges, reference counts and a poisoning buffer, not through a sanitizer (no Miri/ASan run is wired in).",
   technique="TLA+ cursor model Reader; TLC state-graph enumeration replayed on six reader kinds + TLC trace validation of random histories"),
 "C17": dict(
   cat="model_checking", ref="DESIGN.md §5 C17",
   text="Lookup.tla specifies the split-DWARF hash index (v2/v5) with find as coded, package unit assembly, the DWARF 5 name index (buckets, hash chains, entry pool, parent chains, CU/TU resolution), aranges, pubnames/pubtypes, str_offsets/addr indexing and the section loader; TLC proves lookup-as-coded = exhaustive scan on every table of the bounded models (hash tables of 1/2/4/8 slots at every load, name indexes <= 4 names, every section-kind subset, every loader API x failing id) and generates one replay case per state that gimli must answer within the allowed set; lookups recorded on random tables of 10^3-10^4 entries and on the compiler-built corpus sections are validated event by event by LookupTrace, which re-encodes the logged table.",
   note="Exhaustive for the stated bounds; larger tables by trace validation. No comparison with tool dumps (llvm-dwarfdump): corpus sections are inputs judged by the spec. Package-unit equality is decided on section contents.",
   technique="TLA+ spec Lookup (find-as-coded = scan proved by TLC); TLC-generated tables replayed on the code + TLC trace validation"),
 "C18": dict(
   cat="model_checking", ref="DESIGN.md §5 C18",
   text="Reloc.tla gives a field-class schema (addr, secoffset, unitoffset, addrlen, plain) and TLA+ encoders for a unit (v2-5, type unit), line programs v4/v5, .debug_ranges, .debug_rnglists and a CIE/CIE/FDE .debug_frame, with RelocateReader semantics over the Reader model and RelocateWriter semantics; TLC checks read transparency for every relocation set of <= 2/3 relocatable fields x 3 addends and Apply(recorded) = direct for every writer script; each case is replayed on gimli (RelocateReader over an interposing reader that logs which primitive read each offset vs. pre-applied bytes; recording RelocateWriter vs. EndianVec). gimli's real writers run with symbolic addresses through a recording writer are validated by RelocTrace, including that the relocated offsets are exactly those read through relocatable primitives. One open known finding (.debug_frame CIE pointer read with a plain primitive) is reported as KNOWN-FINDING.",
   note="Structures are the spec's own small encodings (one per family); .eh_frame pointer encodings, .debug_loc(lists) on the read side, aranges/names/macro/str_offsets/addr are not encoded. Relocations are placed only on addr/secoffset fields.",
   technique="TLA+ field-class schema + relocation semantics; TLC cases replayed through an interposing Reader / recording Writer + TLC trace validation"),
 "C20": dict(
   cat="model_checking", ref="DESIGN.md §5 C20",
   text="Over a pool of 10 CIE/FDE programs (succeeding with 0/1/many initial rules, failing in the CIE, failing mid-FDE, overflowing rows / rules, leaving remembered rows behind) every history of uses of ONE model UnwindContext per storage (driven to completion or abandoned by unwind_info_for_address) is explored by TLC with the model carrying state across uses exactly as the code does; invariant: each use observes what a new context observes. Reuse.tla does the same for entry buffers reused across entries with 0-3 attributes and across errors, cursor clones at every position continued in both orders, EntriesTree::root after every partial traversal, and AbbreviationsCache under {none, Duplicates, All} x unit sequences over 7 abbreviation offsets incl. invalid ones. All cases are replayed on reused and on fresh state; random histories on long-lived contexts are validated by the trace spec.",
   note="Exhaustive for histories <= 2 (quick) / 3 (thorough) over 20 step kinds, DIE streams <= 3/4 tokens, unit sequences <= 3; longer histories by random traces. LineRows resume and other iterator kinds are covered by C04, not here.",
   technique="TLA+ history-composition models (persistent model state next to fresh state); TLC-enumerated histories replayed on the code + TLC trace validation"),

 "C01": dict(
   cat="exploration", ref="DESIGN.md §5 C01",
   text="IterProto.tla specifies the lazy-iterator protocol for the iterator families as gimli codes them (remaining-bytes, cooked, count, chain); TLC checks Fused, Bounded, refinement of the abstract variant machine and termination under fairness, and that two deliberately broken families are refuted. gvh-robust drives 226-236 public entry points (every section reader, index lookup, Operation::parse, evaluation with arbitrary resume answers, unwind tables, .eh_frame_hdr search, die_ranges, Dwarf::from, FrameTable::from, stepwise conversion) on the self fixture, the gcc/clang corpus and writer-generated sections under seeded structure-aware mutation (truncation, flips, splices, extreme LEB/length/count/index values placed on fields the parsers really read, found through a traced clean run), a reader that fails the k-th operation, and every byte string of length <= 2 for the five decoder families, in BOTH build profiles; each call's outcome and each iterator's run-length-encoded result sequence become events that RobustTrace must accept (panic/abort/timeout events have no action; per-iterator sequences must be behaviours of IterProto). Two open known findings are printed as KNOWN-FINDING.",
   note="The byte space is sampled, not enumerated (honest level: exploration judged by a model-checked protocol spec). A violation is always a concrete replayable recipe. Out-of-bounds reads that do not panic are not observable here (safe Rust turns them into panics; C10 covers the only unsafe reader).",
   technique="TLA+ protocol spec IterProto model-checked by TLC; outcome/iterator traces of seeded mutation, truncation and fault-injection runs validated by TLC against RobustTrace"),
 "C02": dict(
   cat="model_checking", ref="DESIGN.md §5 C02",
   text="Dies.tla / Abbrev.tla: unit-header encoder (v2-5, every unit type, 32/64-bit), forest -> token stream with sibling attributes in every reference form, and the machines as coded for EntriesRaw, EntriesCursor (next_entry/next_dfs/next_sibling incl. the sibling fast path), EntriesTree (Root/Descend/NextChild/Ascend) and the abbreviation store (dense vec + map, duplicate checks). TLC explores every forest of <= 4/5 entries x sibling-attribute subsets x padding x header variants x abbreviation-code schemes (sequential, permuted, sparse, codes up to 2^64-1) and for each the COMPLETE state graph of the cursor, tree and positioned raw reader from every entry offset, all 384 header layouts and every abbreviation insertion sequence of <= 4/5 codes; on every transition the machine-as-coded observation must equal the forest-semantics observation, and every transition is replayed on gimli. Recorded traversals (random interleavings, clones, re-rooting) of writer-built units of 50-2000 entries, the self fixture and the gcc/clang corpus are validated by DiesTrace.",
   note="Exhaustive for the stated finite product; each transition is replayed from one witness script (other histories to the same state only through the random interleavings of the trace part). Well-formed units only; .dwp packages skipped; no llvm-dwarfdump comparison.",
   technique="TLA+ machines Dies/Abbrev with refinement to forest semantics; TLC state-graph enumeration replayed on the code + TLC trace validation"),
 "C03": dict(
   cat="model_checking", ref="DESIGN.md §5 C03",
   text="Forms.tla is an independent transcription of DWARF 7.5 (49 forms: class, size or variable, decode; conditions on version/format/address size; legacy data4/data8 section offsets per attribute name; indirect nesting; implicit_const) plus skip_attributes as coded. TLC enumerates every form x version 2-5 x format x address size 1/2/4/8 x byte order x boundary payloads, legacy names, nested DW_FORM_indirect, attribute lists <= 3 over neighbour size classes (incl. blocks whose length exceeds the data), 146 attribute names x 12 forms for value() normalisation, and the line-table attribute decoder; each case is a complete encoded unit with expected values, consumed sizes, skip position and advertised fixed sizes; inside TLC skip-as-coded = reading. All cases are replayed; observed raw/normalised values, the *_value conversions and every entry of the fixture and corpus units are validated by FormsTrace.",
   note="Complete over the stated finite product; the oracle is the TLA+ form table, never gimli's own size function. Which variant value() picks per name is constrained to the value's class; payload preservation is exact. 64-bit host assumed.",
   technique="TLA+ form table Forms; TLC enumeration replayed on the code + TLC trace validation of recorded attribute values"),
 "C05": dict(
   cat="model_checking", ref="DESIGN.md §5 C05",
   text="CfiCodec.tla / CfiSection.tla: encoders and meanings of CIEs/FDEs of both section kinds, every DW_EH_PE byte (validity, pcrel/textrel/datarel/funcrel/aligned/indirect as coded), .eh_frame_hdr, and the machines CfiEntriesIter, fde_for_address and EhHdrTable::lookup as coded (window updates and Reader operations). TLC proves lookup-as-coded = greatest entry <= probe for every sorted table of <= 5/6 entries over 0..12 and every probe, and agreement of scan, hdr search and covering FDE for non-overlapping FDEs; every explored section (1-2 CIEs, 1-4 FDEs, any order, shared CIEs, terminators, 64-bit entries), augmentation string, encoding byte x context x bases x raw value and hdr table is replayed on gimli (entries, CIE binding, all three lookup paths, unwind row). Binary searches on random tables of 1-2000 FDEs are validated step by step through an interposing reader.",
   note="Exhaustive for the stated finite alphabets; wide tables and 64-bit values by trace validation; no readelf/llvm-dwarfdump comparison.",
   technique="TLA+ specs CfiCodec/CfiSection (binary-search theorem proved by TLC); TLC-generated sections replayed on the code + TLC trace validation of hdr searches"),
 "C08": dict(
   cat="model_checking", ref="DESIGN.md §5 C08",
   text="Lists.tla models the wire format of every range/location list entry kind (legacy pairs, DW_RLE_*, DW_LLE_*, GNU split-DWARF v4), the raw and resolving iterators with the running base address exactly as convert_raw, the address-table and offset-table lookups and the Dwarf-level helpers (ranges_offset_from_raw, attr_ranges_offset, die_ranges, unit_ranges); TLC enumerates all lists up to 3/4 entries over boundary alphabets at address size 1 and root-DIE attribute sequences, checking inside the model that raw iteration = encoded entries, every yielded range is non-empty and below the tombstone for ANY list (incl. truncated), and that for well-formed lists the machine equals an independently written standard resolution; every state is replayed on gimli under all version/format/dwo settings; random long lists and arbitrary bytes at address sizes 1-8 are trace-validated with exact 64-bit arithmetic.",
   note="Exhaustive over the stated alphabets at address size 1 (plus single-entry lists at 2/4/8); longer lists and wider addresses sampled by trace validation; no llvm-dwarfdump comparison. The non-empty/below-tombstone clause is enforced on list iterators, not on die_ranges' single low_pc/high_pc range.",
   technique="TLA+ spec Lists (machine as coded vs. independent resolution, checked by TLC); TLC-generated lists replayed on the code + TLC trace validation"),
 "C14": dict(
   cat="model_checking", ref="DESIGN.md §5 C14",
   text="FrameWriter.tla is a builder machine of write::FrameTable (add_cie de-duplication, lazy CIE emission, entry layout, augmentation and pointer encodings, advance_loc form by factored delta, exact factoring or error, decreasing offsets, padding) with a reference evaluator for the meaning of the supplied instructions; every explored builder script (advance_loc width boundaries x code alignment, every instruction variant x operand boundaries x data alignment, <= 2-3 CIEs x <= 2-3 FDEs) is executed on gimli, written as .debug_frame and .eh_frame, read back and compared: CIE parameters, FDE range/LSDA/personality, CIE binding, one CIE per distinct CIE, unwind state at every probe offset as the function offset -> (CFA, rules, args size), specific success/failure; observed entry lengths are validated against the padding rule by FrameWriterTrace.",
   note="Exhaustive over the stated boundary alphabets; operands < 2^31 in magnitude; Address::Symbol not covered; only the padding rule has a trace binding.",
   technique="TLA+ builder machine FrameWriter over CfiCodec with reference row evaluator; TLC-enumerated scripts replayed on writer+reader + TLC trace validation of padding"),

 "C11": dict(
   cat="model_checking", ref="DESIGN.md §5 C11",
   text="UnitWriter.tla is a builder machine of write::Unit / UnitTable / Dwarf (add, reserve, add_reserved with lazy placeholder materialisation, set/replace, delete, set_sibling, delete_child, string de-duplication) with Form/Size/Emit/Meaning tables for every AttributeValue kind and Unit::write as coded (base-type reordering, abbreviation codes, two-pass layout, sibling offsets, in-unit patches, cross-unit fix-ups); TLC checks Size = Len(Emit) and layout consistency on every script and predicts the read-back forest and the exact .debug_info / .debug_str bytes. Every script of the bounded model (127 probe values x DWARF 2-5 x both formats x address size 1/2/4/8 x byte order on a skeleton whose forward, backward and cross-unit references jump over the probe; interleavings of 3-4 structure calls + 1-2 modifiers with references to added, reserved-only and deleted ids; 1-2 units) is replayed through Dwarf::write and incrementally per unit, read back with read::Dwarf, and must give exactly the predicted forest (references resolved to entry identities) and bytes, or the predicted refusal.",
   note="Bounded exhaustive; expressions are raw bytecode or five layout-dependent operations (C15 covers the expression builder); FileIndex(Some), line programs and symbolic references are not generated; no trace (V) part: the replay compares complete forests and bytes.",
   technique="TLA+ builder machine UnitWriter with two-pass layout (Size = Len(Emit) checked by TLC); TLC-generated scripts replayed on writer+reader, forest and bytes compared"),
 "C19": dict(
   cat="model_checking", ref="DESIGN.md §5 C19",
   text="Filter.tla defines the required closure declaratively (parent, reference and member-of-retained-non-namespace edges; tag table from has_die_back_edge) and models the worklist of get_reachable step by step with the per-unit reservation split; inside TLC, for every graph and every Required subset: worklist result = closure, Required retained, complete, minimal, no dangling reference, bounded loop. Every input graph of the bounded model (ordered forests <= 4/5 entries over 1-2 units x tag classes x <= 2-3 reference edges of 24 kinds incl. cycles, invalid offsets, unit roots as targets and holders, expression and location-list references) x every Required subset is built with gimli's writer, filtered and converted by the real API (three conversion flows, split units through a skeleton), written and read back: retained set = closure (larger closed outputs are drift), write succeeds, no dangling reference, attributes equal to the unfiltered conversion. Random forests of 50-500 entries are validated by FilterTrace.",
   note="Exhaustive within the bounds for the graph structure; concrete tags and reference kinds are rotated, not multiplied; split-unit filters only in the DWARF <= 4 GNU style (the writer cannot produce v5 skeleton headers).",
   technique="TLA+ spec Filter (declarative closure = worklist-as-coded proved by TLC); TLC-generated graphs replayed through writer, filter, converter, reader + TLC trace validation"),

 "C16": dict(
   cat="model_checking", ref="DESIGN.md §5 C16",
   text="ListWriter.tla models write::RangeListTable / LocationListTable as a builder machine (de-duplicating add, per-version emission in the pair format and the v5 DW_RLE_/DW_LLE_ encodings, the validity errors InvalidRange / MissingBaseAddress / UnexpectedBaseAddress / default location before v5 as coded) composed with the reader model Lists.tla; TLC enumerates units with lists of up to 3/4 entries over boundary alphabets (begin = end, (0,0), all-ones, overflowing start+length) x version class x address size 4/8 x root low_pc {absent, 0, non-zero} and multi-list units with duplicates, and location expressions ending in call4 / call_ref entry references (root, own entry, forward child) whose operands come from a layout model of the unit; it checks in the model that accepted representable lists read back as their meaning through the unit base address and that equal lists share one id; every state is replayed through write::Dwarf -> read::Dwarf (attr_ranges / attr_locations) for versions 2-5 and both formats; random larger tables are validated by ListWriterTrace.",
   note="Exhaustive over the stated alphabets; addresses are constants (no symbolic addresses); error kinds, exact section bytes and offsets are compared as drift.",
   technique="TLA+ builder machine ListWriter composed with the reader model Lists; TLC-enumerated units replayed through writer+reader + TLC trace validation"),
}
NOT_YET = "check not built yet in this session (see DESIGN.md §9 build order); not claimed"
def main():
    hooks = []
    try:
        out = subprocess.run(["git", "-C", "/repo", "log", "--format=%H %s"], stdout=subprocess.PIPE, text=True).stdout
        hooks = [l.split()[0] for l in out.splitlines() if " hook:" in l or l.split(" ", 1)[1].startswith("verif-hook")]
    except Exception:
        pass
    m = {
     "version": 1,
     "setup_cmd": "cd /verif && ./setup.sh",
     "hooks": {"guard": "gimli_verif",
               "enable": "RUSTFLAGS='--cfg gimli_verif' (set in /verif/harness/.cargo/config.toml; the harness has a path dependency on /repo)",
               "baseline_off_cmd": "cd /repo && cargo test --workspace --no-fail-fast --offline",
               "source_commits": hooks, "add_only": True},
     "engines": [{"name": "tlc+gvh", "path": "/verif/check", "serves_properties": sorted(CLAIMS),
                  "kind_free_text": "TLA+ specifications in spec/ checked by TLC; cases generated by TLC are replayed on gimli through harness/ (gvh-* binaries); traces recorded from gimli are validated by TLC against *Trace.tla"}],
     "checks": [],
     "notes": "Every check rebuilds the harness (path dependency on /repo) before running. Exit 2 = tool failure, never a violation.",
     "not_applicable": [],
    }
    for pid in ALL:
        c = CLAIMS.get(pid)
        if not c:
            m["not_applicable"].append({"property_id": pid, "reason": NOT_YET}); continue
        m["checks"].append({
          "property_id": pid,
          "quick_cmd": "./check %s --tier quick" % pid,
          "thorough_cmd": "./check %s --tier thorough" % pid,
          "evidence_file": "/verif/evidence/%s.json" % pid,
          "replay_cmd_template": "./check %s --replay {path}" % pid,
          "engine": "tlc+gvh",
          "level_claimed": {"category": c["cat"], "text": c["text"], "design_ref": c["ref"]},
          "level_note": c["note"], "technique": c["technique"]})
    json.dump(m, open(os.path.join(here, "MANIFEST.json"), "w"), indent=1)
if __name__ == "__main__":
    main()
