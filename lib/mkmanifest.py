#!/usr/bin/env python3
"""Regenerates MANIFEST.json from the table below (kept in one place so the
manifest is always valid and in step with the checks that exist)."""
import json, os, subprocess
here = os.path.dirname(os.path.dirname(os.path.abspath(__file__)))
ALL = ["C%02d" % i for i in range(1, 21)]
CLAIMS = {
 "C09": dict(
   cat="model_checking", ref="DESIGN.md §5 C09",
   text="TLC enumerates LEB128 byte strings (all strings of length <= 2 over 256 values, class-alphabet strings to length 4/5 and the 9-11 byte frontier) and every fixed-width/sized/initial-length read (all size arguments 0..255, both byte orders, truncations); inside TLC the byte-at-a-time machines as coded are checked against the mathematical meaning on digit lists; every case is replayed on the real readers. Every primitive writer call is recorded and validated by the trace spec LebTrace (decode(bytes)=value, size=len, unrepresentable refused).",
   note="Trusted: TLC, the BV byte-tuple arithmetic (checked against Integers by MCBV in the thorough tier), the harness projection (value as LE byte tuple, bytes consumed). Strings longer than 2 bytes are class-sampled; error kinds are not compared.",
   technique="TLA+ spec Leb/BV; TLC exhaustive case generation replayed on the code + TLC trace validation of writer events"),
 "C07": dict(
   cat="model_checking", ref="DESIGN.md §5 C07",
   text="Expr.tla models gimli's Evaluation as a state machine (decode at arbitrary pc via OpCodec.tla, typed/generic arithmetic on byte-tuple bit-vectors via Value.tla, suspension/resume protocol, pieces, nested calls, iteration limit, storage capacities). TLC explores on an 8-bit target every program up to 2-4 symbols over five alphabet slices (84 symbols) x every resume answer from boundary sets x iteration limits x heap/small storage, checking machine invariants in every state; every terminated behaviour is replayed on the real evaluator and all Requires* payloads and the final pieces/value are compared. All 256 opcode bytes x 13 operand patterns x truncations x 6 encodings are decoded by the spec and compared with Operation::parse. Random programs at address sizes 1/2/4/8 with 64-bit operands are recorded and re-run by the trace spec ExprTrace.",
   note="Trusted: TLC, BV arithmetic (MCBV lemmas), harness projection (generic values mod 2^(8*asz)). IEEE-754 arithmetic is not specified (runs depending on it are compared only up to that point). Exhaustive part is at address size 1; wider sizes are sampled by trace validation. Error kinds other than TooManyIterations are drift.",
   technique="TLA+ state machine Expr/OpCodec/Value; TLC exhaustive behaviours replayed on the code + TLC trace validation of recorded evaluations"),
 "C15": dict(
   cat="model_checking", ref="DESIGN.md §5 C15",
   text="ExprWriter.tla models write::Expression as a builder machine: the meaning of every op_* call in the vocabulary of the reader-side decoding spec (OpCodec.tla), the emission as coded (short forms, GNU opcodes before v5, branch displacements) and which requests have no encoding. TLC enumerates every call sequence up to 2-4 calls over three alphabet slices (~100 calls with boundary operands, references to a base type / earlier / later / other-unit entries, nested entry_value, branches to every index) x encodings x contexts (DIE attribute, location list, CFI) and proves Decode(Emit(calls)) = Mean(calls) and predicted size = emitted length on the model; each sequence is replayed on the real writer, read back, and decoded operations, reference targets (by entry name), branch targets (by operation index), the entries/attributes following the expression and the evaluation result (Expr.tla) are compared. Random 3-40 call sequences are validated by ExprWriterTrace, which decodes the recorded bytes with OpCodec.",
   note="Trusted: TLC, OpCodec/Expr specs (bound to the reader by C07), harness name resolution of reference offsets. A forward unit-relative reference may be refused or encoded; evaluation equivalence only for reference-free programs.",
   technique="TLA+ builder machine ExprWriter composed with OpCodec/Expr; TLC-enumerated call sequences replayed on the writer + TLC trace validation of emitted bytes"),
}
NOT_YET = "check not built yet in this session (see DESIGN.md §9 build order); not claimed"
def main():
    hooks = []
    try:
        out = subprocess.run(["git", "-C", "/repo", "log", "--format=%H %s"], stdout=subprocess.PIPE, text=True).stdout
        hooks = [l.split()[0] for l in out.splitlines() if " hook:" in l or l.split(" ", 1)[1].startswith("verif-hook")]
    except Exception:
        pass
    m = {
     "version": 1,
     "setup_cmd": "cd /verif && ./setup.sh",
     "hooks": {"guard": "gimli_verif",
               "enable": "RUSTFLAGS='--cfg gimli_verif' (set in /verif/harness/.cargo/config.toml; the harness has a path dependency on /repo)",
               "baseline_off_cmd": "cd /repo && cargo test --workspace --no-fail-fast --offline",
               "source_commits": hooks, "add_only": True},
     "engines": [{"name": "tlc+gvh", "path": "/verif/check", "serves_properties": sorted(CLAIMS),
                  "kind_free_text": "TLA+ specifications in spec/ checked by TLC; cases generated by TLC are replayed on gimli through harness/ (gvh-* binaries); traces recorded from gimli are validated by TLC against *Trace.tla"}],
     "checks": [],
     "notes": "Every check rebuilds the harness (path dependency on /repo) before running. Exit 2 = tool failure, never a violation.",
     "not_applicable": [],
    }
    for pid in ALL:
        c = CLAIMS.get(pid)
        if not c:
            m["not_applicable"].append({"property_id": pid, "reason": NOT_YET}); continue
        m["checks"].append({
          "property_id": pid,
          "quick_cmd": "./check %s --tier quick" % pid,
          "thorough_cmd": "./check %s --tier thorough" % pid,
          "evidence_file": "/verif/evidence/%s.json" % pid,
          "replay_cmd_template": "./check %s --replay {path}" % pid,
          "engine": "tlc+gvh",
          "level_claimed": {"category": c["cat"], "text": c["text"], "design_ref": c["ref"]},
          "level_note": c["note"], "technique": c["technique"]})
    json.dump(m, open(os.path.join(here, "MANIFEST.json"), "w"), indent=1)
if __name__ == "__main__":
    main()
