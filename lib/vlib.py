"""Shared driver plumbing: build the harness from /repo's working tree, run TLC
(case generation, model checking, trace validation), replay cases on the real
code with abort/hang attribution, triage violations against
known_findings.json, write evidence.

Exit codes: 0 = property held on everything explored (known findings are
printed as KNOWN-FINDING lines), 1 = VIOLATION line(s) printed, 2 = tool
failure (never reported as a violation).
"""
import json, os, re, subprocess, sys, time, shutil, signal, hashlib

VERIF = os.path.dirname(os.path.dirname(os.path.abspath(__file__)))
SPEC = os.path.join(VERIF, "spec")
HARNESS = os.path.join(VERIF, "harness")
REPO = "/repo"


def log(*a):
    print(*a, file=sys.stderr, flush=True)


class ToolError(Exception):
    pass


class TlcResult:
    def __init__(self):
        self.generated = 0
        self.distinct = 0
        self.depth = 0
        self.ncases = 0
        self.cases_path = None
        self.error = None          # text of an invariant / assumption / postcondition failure
        self.other = []            # non-case output lines
        self.wall = 0.0
        self.coverage = {}         # action name -> count (when -coverage is on)
        self.prints = []           # <<"TAG", ...>> lines other than CASE


CASE_RE = re.compile(r'^<<"CASE", (".*")>>$')
TAG_RE = re.compile(r'^<<"([A-Z]+)", (.*)>>(?:  (?:TRUE|FALSE))?$')


class Ctx:
    def __init__(self, pid, argv):
        self.pid = pid
        self.t0 = time.time()
        self.tier = os.environ.get("VERIF_TIER", "quick")
        self.replay_path = None
        i = 0
        while i < len(argv):
            if argv[i] == "--tier":
                self.tier = argv[i + 1]; i += 2
            elif argv[i] == "--replay":
                self.replay_path = argv[i + 1]; i += 2
            else:
                i += 1
        if self.tier not in ("quick", "thorough"):
            self.tier = "quick"
        try:
            self.seed = int(os.environ.get("VERIF_SEED", "1"))
        except ValueError:
            self.seed = 1
        alt = os.environ.get("VERIF_REPO")
        suffix = ("-alt-" + hashlib.sha1(os.path.abspath(alt).encode()).hexdigest()[:6]) if alt and os.path.abspath(alt) != REPO else ""
        self.work = os.path.join(VERIF, "work", "%s%s-%d" % (pid, suffix, os.getpid()))
        shutil.rmtree(self.work, ignore_errors=True)
        os.makedirs(self.work, exist_ok=True)
        self.violations = []       # list of dicts
        self.known_hits = {}       # finding id -> count
        self.drift = []
        self.cov = {"states": 0, "transitions": 0, "traces_validated_against_impl": 0,
                    "evaluations": 0, "samples": [], "tlc_runs": [], "not_exercised": []}
        self.assumptions = []
        self._nontrivial = set()
        kf = os.path.join(VERIF, "known_findings.json")
        self.known = json.load(open(kf)).get("findings", []) if os.path.exists(kf) else []
        self.workers = int(os.environ.get("VERIF_WORKERS", "8"))

    @property
    def quick(self):
        return self.tier == "quick"

    # ------------------------------------------------------------------ build
    def harness_dir(self):
        """The harness crate.  Registered checks always use /verif/harness (path
        dependency on /repo).  For negative controls during development,
        VERIF_REPO=<scratch worktree> builds a private copy of the harness against
        that tree instead (never used by MANIFEST commands)."""
        alt = os.environ.get("VERIF_REPO")
        if not alt or os.path.abspath(alt) == REPO:
            return HARNESS
        h = hashlib.sha1(os.path.abspath(alt).encode()).hexdigest()[:10]
        d = "/tmp/gvhalt-" + h
        os.makedirs(d, exist_ok=True)
        for name in ("src", ".cargo"):
            shutil.rmtree(os.path.join(d, name), ignore_errors=True)
            shutil.copytree(os.path.join(HARNESS, name), os.path.join(d, name))
        shutil.copy(os.path.join(HARNESS, "Cargo.lock"), d)
        t = open(os.path.join(HARNESS, "Cargo.toml")).read().replace('path = "/repo"', 'path = "%s"' % os.path.abspath(alt))
        open(os.path.join(d, "Cargo.toml"), "w").write(t)
        return d

    def build(self, binname, profile="dev"):
        """cargo build of one harness binary against /repo's working tree."""
        HARNESS = self.harness_dir()
        cmd = ["cargo", "build", "--offline", "--bin", binname]
        if profile == "release":
            cmd.append("--release")
        env = dict(os.environ, CARGO_NET_OFFLINE="true")
        t = time.time()
        p = subprocess.run(cmd, cwd=HARNESS, env=env, stdout=subprocess.PIPE, stderr=subprocess.STDOUT, text=True)
        if p.returncode != 0:
            log(p.stdout[-6000:])
            raise ToolError("cargo build failed for %s (%s)" % (binname, profile))
        log("[build] %s %s %.1fs" % (binname, profile, time.time() - t))
        d = "release" if profile == "release" else "debug"
        return os.path.join(HARNESS, "target", d, binname)

    # -------------------------------------------------------------------- TLC
    def tlc(self, module, cfg=None, workers=None, env=None, timeout=3600, simulate=None,
            depth=None, coverage=False, cases_name=None, deque=False, xmx=None, allow_error=False):
        """Run TLC on spec/<module>.tla with spec/<cfg>.cfg.  CASE lines are
        streamed to work/<cases_name>.ndjson; statistics are parsed."""
        cfg = cfg or module
        workers = workers or self.workers
        res = TlcResult()
        meta = os.path.join(self.work, "tlc-" + cfg + "-" + str(len(self.cov["tlc_runs"])))
        cmd = ["tlc", "-workers", str(workers), "-metadir", meta, "-cleanup", "-noGenerateSpecTE",
               "-config", cfg + ".cfg"]
        if coverage:
            cmd += ["-coverage", "1"]
        if simulate:
            cmd += ["-simulate", "num=%d" % simulate]
            cmd += ["-seed", str(self.seed)]
            if depth:
                cmd += ["-depth", str(depth)]
        cmd.append(module + ".tla")
        e = dict(os.environ)
        jto = "-Xss1g"
        if deque:
            jto += " -Dtlc2.tool.queue.IStateQueue=StateDeque"
        jto += " -Xmx" + (xmx or os.environ.get("VERIF_TLC_XMX", "6g"))
        e["JAVA_TOOL_OPTIONS"] = jto
        if env:
            e.update({k: str(v) for k, v in env.items()})
        cases_name = cases_name or (cfg + "-cases")
        res.cases_path = os.path.join(self.work, cases_name + ".ndjson")
        t = time.time()
        full = ["timeout", "-k", "10", str(timeout)] + cmd
        p = subprocess.Popen(full, cwd=SPEC, env=e, stdout=subprocess.PIPE, stderr=subprocess.STDOUT, text=True, bufsize=1 << 20)
        errlines = []
        in_error = False
        with open(res.cases_path, "w") as out:
            for line in p.stdout:
                line = line.rstrip("\n")
                m = CASE_RE.match(line)
                if m:
                    try:
                        out.write(json.loads(m.group(1)) + "\n")
                        res.ncases += 1
                    except Exception:
                        res.other.append(line)
                    continue
                mt = TAG_RE.match(line)
                if mt:
                    res.prints.append((mt.group(1), mt.group(2)))
                    continue
                if line.startswith(("Parsing file", "Semantic processing", "Linting of", "Computed ", "Progress(", "Picked up JAVA_TOOL")):
                    continue
                res.other.append(line)
                if line.startswith("Error:") or "is violated" in line or "Assumption" in line and "false" in line:
                    in_error = True
                if in_error and len(errlines) < 60:
                    errlines.append(line)
                m2 = re.match(r"^(\d+) states generated, (\d+) distinct states found", line)
                if m2:
                    res.generated = int(m2.group(1)); res.distinct = int(m2.group(2))
                m3 = re.match(r"^The depth of the complete state graph search is (\d+)", line)
                if m3:
                    res.depth = int(m3.group(1))
                m4 = re.match(r"^<(\w+) line \d+, col \d+ to line \d+, col \d+ of module \w+>: (\d+):(\d+)", line)
                if m4:
                    res.coverage[m4.group(1)] = res.coverage.get(m4.group(1), 0) + int(m4.group(3))
        rc = p.wait()
        res.wall = time.time() - t
        if errlines:
            res.error = "\n".join(errlines)
        if rc == 124 or rc == 137:
            raise ToolError("TLC timed out on %s/%s after %ds" % (module, cfg, timeout))
        if rc != 0 and not res.error:
            res.error = "TLC exit %d\n%s" % (rc, "\n".join(res.other[-30:]))
        shutil.rmtree(meta, ignore_errors=True)
        self.cov["tlc_runs"].append({"module": module, "cfg": cfg, "generated": res.generated,
                                     "distinct": res.distinct, "depth": res.depth, "cases": res.ncases,
                                     "wall_s": round(res.wall, 1), "mode": "simulate" if simulate else "bfs"})
        self.cov["states"] += res.distinct
        self.cov["transitions"] += res.generated
        for a, c in res.coverage.items():
            if c == 0 and a not in ("Init",):
                self.cov["not_exercised"].append(module + "." + a)
        log("[tlc] %s/%s: %d generated, %d distinct, %d cases, %.1fs%s" %
            (module, cfg, res.generated, res.distinct, res.ncases, res.wall, " ERROR" if res.error else ""))
        if res.error and not allow_error:
            log(res.error)
            raise ToolError("TLC reported an error in the model %s/%s (a design-level failure, not a code violation):\n%s"
                            % (module, cfg, res.error[:3000]))
        return res

    def validate_trace(self, module, trace_path, cfg=None, timeout=1800, env=None):
        """Trace validation: TLC must consume every event of trace_path.
        Returns (accepted, info)."""
        e = {"TRACE": trace_path}
        if env:
            e.update(env)
        res = self.tlc(module, cfg or module, workers=1, env=e, timeout=timeout, deque=True, xmx="8g",
                       allow_error=True, cases_name=(cfg or module) + "-tv")
        n = sum(1 for _ in open(trace_path))
        if res.error is None:
            return True, {"events": n, "wall_s": res.wall}
        info = {"events": n, "error": res.error[:4000], "unmatched": None}
        for tag, body in res.prints:
            if tag == "UNMATCHED":
                info["unmatched"] = body
        if info["unmatched"] is None and ("Attempted to" in res.error or "unexpected exception" in res.error):
            # An evaluation error while matching an event (typically comparing values of
            # different shapes, i.e. the recorded event does not even have the shape the
            # spec produces): the event being consumed is at the last printed value of l.
            full = "\n".join(res.other)
            ls = re.findall(r"^/\\ l = (\d+)", full, re.M)
            if ls:
                k = int(ls[-1])
                lines = [x for x in open(trace_path) if x.strip()]
                if 1 <= k <= len(lines):
                    info["unmatched"] = "%d, %s" % (k, json.dumps(lines[k - 1].strip()))
                    info["shape_error"] = True
        return False, info

    # ----------------------------------------------------------------- replay
    def replay(self, binpath, cases_path, tag="obs", per_case_timeout=20, env=None):
        """Run `bin replay cases obs`, restarting after aborts/hangs so that each is
        attributed to the case that caused it.  Returns list of observations by index."""
        obs_path = os.path.join(self.work, tag + ".ndjson")
        if os.path.exists(obs_path):
            os.remove(obs_path)
        ncases = sum(1 for l in open(cases_path) if l.strip())
        results = {}
        skip = 0
        e = dict(os.environ)
        if env:
            e.update(env)
        restarts = 0
        hangs_confirmed = 0
        hangs_total = 0
        while skip < ncases:
            if hangs_total >= 30:
                # the binary really hangs (>= 3 hangs confirmed alone) and keeps doing so:
                # do not spend hours on the rest; they are reported as assumed timeouts
                for k in range(skip, ncases):
                    results[k] = {"outcome": "timeout", "assumed": True}
                break
            open(obs_path, "w").close()
            p = subprocess.Popen([binpath, "replay", cases_path, obs_path, str(skip)], env=e,
                                 stdout=subprocess.DEVNULL, stderr=subprocess.PIPE)
            last_size = 0
            last_change = time.time()
            hung = False
            while True:
                try:
                    p.wait(timeout=0.5)
                    break
                except subprocess.TimeoutExpired:
                    sz = os.path.getsize(obs_path)
                    if sz != last_size:
                        last_size = sz; last_change = time.time()
                    elif time.time() - last_change > (per_case_timeout if hangs_confirmed < 3 else min(per_case_timeout, 5)):
                        hung = True
                        p.kill(); p.wait()
                        break
            started = None
            done = -1
            with open(obs_path) as f:
                for line in f:
                    line = line.strip()
                    if not line:
                        continue
                    try:
                        o = json.loads(line)
                    except Exception:
                        continue
                    if "start" in o:
                        started = o["start"]
                    else:
                        results[o["i"]] = o["obs"]
                        done = o["i"]
            if p.returncode == 0 and not hung:
                break
            # the case that was started but not finished is the culprit
            bad = started if (started is not None and started > done) else skip
            if hung:
                # confirm on its own with a much longer budget before calling it a hang:
                # a loaded machine must not turn a slow case into a violation
                # (callers that already grant a long per-case budget are taken at their word)
                confirmed = None
                if per_case_timeout <= 30 and hangs_confirmed < 3:
                    confirmed = self._confirm_case(binpath, cases_path, bad, e, 120, tag)
                if confirmed is None:
                    hangs_total += 1
                    if per_case_timeout > 30 or hangs_confirmed < 3:
                        hangs_confirmed += 1
                results[bad] = confirmed if confirmed is not None else {"outcome": "timeout"}
            else:
                rc = p.returncode
                err = (p.stderr.read() or b"").decode("utf8", "replace")[-400:] if p.stderr else ""
                results[bad] = {"outcome": "abort", "signal": -rc if rc and rc < 0 else rc, "stderr": err}
            skip = bad + 1
            restarts += 1
            if restarts > 400:
                raise ToolError("replay restarted more than 400 times")
        self.cov["evaluations"] += len(results)
        return results

    def _confirm_case(self, binpath, cases_path, idx, env, budget, tag):
        """Re-run case idx alone (process started at idx, killed once idx has reported)."""
        path = os.path.join(self.work, "hangconfirm-%s-%d.ndjson" % (tag, idx))
        open(path, "w").close()
        p = subprocess.Popen([binpath, "replay", cases_path, path, str(idx)], env=env,
                             stdout=subprocess.DEVNULL, stderr=subprocess.DEVNULL)
        t0 = time.time()
        found = None
        while time.time() - t0 < budget and found is None:
            try:
                p.wait(timeout=0.5)
            except subprocess.TimeoutExpired:
                pass
            try:
                with open(path) as f:
                    for line in f:
                        try:
                            o = json.loads(line)
                        except Exception:
                            continue
                        if o.get("i") == idx and "obs" in o:
                            found = o["obs"]
                            break
            except OSError:
                pass
            if p.poll() is not None and found is None:
                break
        if p.poll() is None:
            p.kill(); p.wait()
        try:
            os.remove(path)
        except OSError:
            pass
        return found

    def record(self, binpath, out_name, args, timeout=1800):
        out = os.path.join(self.work, out_name)
        p = subprocess.run([binpath, "record", out] + [str(a) for a in args], timeout=timeout,
                           stdout=subprocess.PIPE, stderr=subprocess.PIPE, text=True)
        if p.returncode != 0:
            # A panic raised inside gimli's own source, or a fatal signal, while the harness
            # drives in-scope inputs is data about the code under test (the call did not
            # produce the specified result), not a failure of the machinery.
            err = p.stderr or ""
            m = re.search(r"panicked at ([^\s:]+):(\d+)", err)
            loc = None
            if m and os.path.isabs(m.group(1)) and "/src/" in m.group(1) and "/harness/" not in m.group(1) \
                    and "/.cargo/" not in m.group(1) and "/rustc/" not in m.group(1):
                loc = "src/" + m.group(1).rsplit("/src/", 1)[1] + ":" + m.group(2)
            elif p.returncode < 0:
                loc = "signal%d" % -p.returncode
            if loc:
                self.violation("record:%s:crash:%s" % (os.path.basename(binpath), loc),
                               "recording run of %s %s did not finish: %s" % (os.path.basename(binpath), " ".join(str(a) for a in args), err[-600:]),
                               {"bin": os.path.basename(binpath), "args": [str(a) for a in args]}, {"stderr": err[-600:]})
                raise ToolError("record crashed inside the code under test at %s" % loc)
            raise ToolError("record failed: rc=%s %s" % (p.returncode, p.stderr[-2000:]))
        return out

    # ------------------------------------------------------------- violations
    def nontrivial(self, key):
        self._nontrivial.add(key)

    def sample(self, s, limit=6):
        if len(self.cov["samples"]) < limit:
            self.cov["samples"].append(s)

    def violation(self, signature, what, case=None, obs=None, extra=None):
        """Report a property violation.  `signature` identifies the specific failing
        input / call site; it is matched against known_findings.json."""
        for k in self.known:
            if k.get("property") == self.pid and re.fullmatch(k["signature"], signature):
                self.known_hits.setdefault(k["id"], {"what": k.get("what", ""), "n": 0, "sig": signature})["n"] += 1
                return
        self.violations.append({"signature": signature, "what": what, "case": case, "obs": obs, "extra": extra})

    def evidence_dir(self):
        """Evidence of registered runs goes to /verif/evidence; runs against a scratch
        tree (VERIF_REPO, negative controls) must not overwrite it."""
        alt = os.environ.get("VERIF_REPO")
        if alt and os.path.abspath(alt) != REPO:
            d = os.environ.get("VERIF_ALT_EVIDENCE", "/tmp/gvhalt-evidence")
        else:
            d = os.path.join(VERIF, "evidence")
        os.makedirs(os.path.join(d, "replays"), exist_ok=True)
        return d

    def finish(self, level, rule, explanation=None, exhaustive=False, extra_cov=None):
        wall = time.time() - self.t0
        EVD = self.evidence_dir()
        for fid, h in sorted(self.known_hits.items()):
            print("KNOWN-FINDING: property=%s %s [%s] (%d cases, e.g. %s)" % (self.pid, h["what"], fid, h["n"], h["sig"]))
        seen = set()
        nrep = 0
        for v in self.violations:
            if v["signature"] in seen:
                continue
            seen.add(v["signature"])
            nrep += 1
            if nrep > 20:
                continue
            path = os.path.join(EVD, "replays", "%s-%d.json" % (self.pid, nrep))
            with open(path, "w") as f:
                json.dump({"property": self.pid, "tier": self.tier, "seed": self.seed, "signature": v["signature"],
                           "what": v["what"], "case": v["case"], "obs": v["obs"], "extra": v["extra"],
                           "repo_rev": repo_rev()}, f, indent=1)
            print("VIOLATION property=%s replay=%s" % (self.pid, path))
            print("  %s: %s" % (v["signature"], v["what"][:600]))
        cov = dict(self.cov)
        cov["distinct_nontrivial"] = len(self._nontrivial)
        # a replayed case may contain several evaluated points (probes, grid points); every
        # distinct non-trivial key was evaluated at least once
        cov["evaluations"] = max(cov["evaluations"], len(self._nontrivial))
        cov["rule"] = rule
        cov["exhaustive"] = exhaustive
        if explanation:
            cov["explanation"] = explanation
        cov["drift"] = self.drift[:20]
        cov["drift_count"] = len(self.drift)
        cov["known_findings_hit"] = {k: v["n"] for k, v in self.known_hits.items()}
        if extra_cov:
            cov.update(extra_cov)
        if not cov["samples"]:
            cov["samples"] = ["(no sample recorded)"]
        ev = {"property_id": self.pid, "tier": self.tier, "seed": self.seed, "level": level,
              "coverage": cov, "assumptions": self.assumptions, "wall_s": round(wall, 2),
              "violations": len(seen)}
        with open(os.path.join(EVD, self.pid + ".json"), "w") as f:
            json.dump(ev, f, indent=1, sort_keys=True)
        log("[done] %s tier=%s violations=%d known=%d wall=%.1fs" % (self.pid, self.tier, len(seen), len(self.known_hits), wall))
        shutil.rmtree(self.work, ignore_errors=True)
        sys.exit(1 if seen else 0)


def repo_rev():
    try:
        return subprocess.run(["git", "-C", REPO, "rev-parse", "HEAD"], stdout=subprocess.PIPE, text=True).stdout.strip()
    except Exception:
        return ""


def read_ndjson(path):
    with open(path) as f:
        for line in f:
            line = line.strip()
            if line:
                yield json.loads(line)


def write_ndjson(path, items):
    with open(path, "w") as f:
        for it in items:
            f.write(json.dumps(it, separators=(",", ":")) + "\n")


def canon(v):
    return json.dumps(v, sort_keys=True, separators=(",", ":"))


def run_check(pid, fn, argv):
    ctx = Ctx(pid, argv)
    try:
        fn(ctx)
    except ToolError as e:
        if ctx.violations:
            # The machinery gave up (e.g. too many rejected events) AFTER it had already
            # established violations: those are reported, the run is not a tool failure.
            log("NOTE: run cut short (%s); reporting the %d violation(s) found so far" % (e, len(ctx.violations)))
            ctx.finish("exploration" if pid == "C01" else "model_checking",
                       rule="run cut short after violations were found: %s" % e)
        log("TOOL-ERROR: %s" % e)
        sys.exit(2)
    except subprocess.TimeoutExpired as e:
        log("TOOL-ERROR: timeout %s" % e)
        sys.exit(2)
    except SystemExit:
        raise
    except BaseException as e:
        # any failure of the machinery itself is a tool error (exit 2), never a violation (exit 1)
        import traceback
        traceback.print_exc()
        log("TOOL-ERROR: %s: %s" % (type(e).__name__, e))
        sys.exit(2)
