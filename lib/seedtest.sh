#!/bin/sh
# usage: lib/seedtest.sh <PROPERTY-ID> <dir with patch.diff [+ demo.rs]> [tier]
# Confirms a seeded change (tests still pass, demo fails with / passes without it) and
# runs the property's check against it in a scratch worktree (never in /repo).
# Prints: SEED <id> <dir>: tests=<ok|FAIL> demo_with=<fails|PASSES> demo_without=<passes|FAILS> check=<exit code>
id=$1; dir=$(cd "$2" && pwd); tier=${3:-quick}
wt=/tmp/st-$(echo "$id-$dir" | md5sum | cut -c1-8)
git -C /repo worktree remove --force "$wt" 2>/dev/null
git -C /repo worktree add -q "$wt" HEAD || exit 2
export CARGO_TARGET_DIR="$wt/target"
tests=skip; dw=skip; dwo=skip
if [ -z "$SEED_SKIP_CONFIRM" ]; then
  if [ -f "$dir/demo.rs" ]; then
    cp "$dir/demo.rs" "$wt/tests/seed_demo.rs"
    (cd "$wt" && cargo test --offline --test seed_demo >"$wt/demo_without.log" 2>&1) && dwo=passes || dwo=FAILS
  fi
fi
(cd "$wt" && git apply "$dir/patch.diff") || { echo "SEED $id $dir: patch does not apply"; git -C /repo worktree remove --force "$wt"; exit 2; }
if [ -z "$SEED_SKIP_CONFIRM" ]; then
  rm -f "$wt/tests/seed_demo.rs"
  (cd "$wt" && cargo test --offline --lib >"$wt/tests.log" 2>&1 && cargo test --offline --tests >>"$wt/tests.log" 2>&1) && tests=ok || tests=FAIL
  if [ -f "$dir/demo.rs" ]; then
    cp "$dir/demo.rs" "$wt/tests/seed_demo.rs"
    (cd "$wt" && cargo test --offline --test seed_demo >"$wt/demo_with.log" 2>&1) && dw=PASSES || dw=fails
    rm -f "$wt/tests/seed_demo.rs"
  fi
fi
unset CARGO_TARGET_DIR
cd /verif
VERIF_REPO="$wt" VERIF_ALT_EVIDENCE="/tmp/gvhalt-evidence-$id" ./check "$id" --tier "$tier" >"$dir/check_$tier.log" 2>&1
rc=$?
grep -E "^VIOLATION|^  [a-z]|KNOWN-FINDING|TOOL-ERROR" "$dir/check_$tier.log" | head -8 | cut -c1-300
echo "SEED $id $dir: tests=$tests demo_with=$dw demo_without=$dwo check=$rc"
git -C /repo worktree remove --force "$wt"
h=$(python3 -c "import hashlib,sys;print(hashlib.sha1(sys.argv[1].encode()).hexdigest()[:10])" "$wt"); rm -rf "/tmp/gvhalt-$h" "/tmp/gvhalt-evidence-$id" 2>/dev/null
exit 0
