#!/usr/bin/env python3
"""Regenerates the seeded-changes table in DESIGN.md (between the SEEDTABLE markers) from
seeded/*/meta.json."""
import json, os, glob, re
rows = []
for d in sorted(glob.glob("/verif/seeded/*/")):
    m = json.load(open(os.path.join(d, "meta.json")))
    name = os.path.basename(d.rstrip("/"))
    runs = m.get("check_runs", [])
    det = any(r.get("detected") for r in runs)
    how = ""
    for r in runs:
        if r.get("detected") and r.get("first_violations"):
            fv = r["first_violations"][0].split("\n")
            how = (fv[1].strip() if len(fv) > 1 else fv[0]).split(":")[0:3]
            how = ":".join(how)[:70]
            break
    note = m.get("confirmed_by_coordinator", {}).get("result_line", "")
    extra = ""
    if "first run" in note or "strengthen" in note:
        extra = " (after strengthening; see text)"
    rows.append("| %s | %s | %s | %s | %s%s |" % (name, m.get("property"), m.get("summary", "").replace("|", "/")[:150],
                                                 m.get("needs", "").replace("|", "/")[:130], ("caught: `%s`" % how) if det else "NOT caught", extra))
table = "| seed | property | change | needs | quick check |\n|---|---|---|---|---|\n" + "\n".join(rows) + "\n"
p = "/verif/DESIGN.md"
s = open(p).read()
a, b = "<!-- SEEDTABLE-BEGIN -->", "<!-- SEEDTABLE-END -->"
if a in s:
    s = s[:s.index(a) + len(a)] + "\n" + table + s[s.index(b):]
    open(p, "w").write(s)
print(len(rows), "rows")
