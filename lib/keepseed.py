#!/usr/bin/env python3
"""keepseed.py <PROPERTY> <seed-out-dir/changeN> <name> : copy a confirmed seeded change
into /verif/seeded/<name>/ (patch.diff, demo.rs, meta.json extended with what was run)."""
import json, os, shutil, sys, re
prop, src, name = sys.argv[1], sys.argv[2], sys.argv[3]
dst = os.path.join("/verif/seeded", name)
os.makedirs(dst, exist_ok=True)
for f in ("patch.diff", "demo.rs"):
    if os.path.exists(os.path.join(src, f)):
        shutil.copy(os.path.join(src, f), dst)
meta = json.load(open(os.path.join(src, "meta.json")))
meta["property"] = prop
runs = []
for f in sorted(os.listdir(src)):
    if f.startswith("check_") and f.endswith(".log"):
        t = open(os.path.join(src, f)).read()
        viol = re.findall(r"^VIOLATION.*\n(?:  .*\n)?", t, re.M)[:3]
        done = re.findall(r"^\[done\].*", t, re.M)
        runs.append({"cmd": "VERIF_REPO=<worktree with patch> ./check %s --tier %s" % (prop, f[6:-4]),
                     "detected": bool(viol), "first_violations": [v.strip()[:400] for v in viol], "summary": done[-1] if done else ""})
meta["confirmed_by_coordinator"] = {"how": "lib/seedtest.sh: scratch worktree of /repo HEAD; demo passes without the patch; patch applied; cargo test --offline --lib and --tests pass; demo fails with the patch; then the property's check run against the patched tree",
                                    "result_line": sys.argv[4] if len(sys.argv) > 4 else ""}
meta["check_runs"] = runs
json.dump(meta, open(os.path.join(dst, "meta.json"), "w"), indent=1)
print("kept", dst, [r["detected"] for r in runs])
