------------------------------ MODULE MCForms ------------------------------
(***************************************************************************)
(* Bounded model for C03.  Every case is a complete unit (header +         *)
(* abbreviation table + one entry) built by the encoders of Forms / Dies / *)
(* Abbrev, with the values, consumed sizes, skip position and advertised   *)
(* sizes that the form table demands.  Sub-models (selected by `Modes`):   *)
(*  "single"   every form x encoding x boundary payloads                   *)
(*  "legacy"   data4/data8 x attribute names with/without legacy section-  *)
(*             offset meaning x version x format x byte order              *)
(*  "indirect" DW_FORM_indirect nesting depth 1 and 2 over every form,     *)
(*             implicit_const / unknown form below indirect                *)
(*  "lists"    attribute lists of length <= MaxList over size classes of   *)
(*             neighbours (incl. blocks whose length field exceeds the     *)
(*             data), so that the skip accumulator crosses every           *)
(*             fixed/variable boundary                                     *)
(*  "norm"     attribute names x one form per raw value class x payloads   *)
(*             around the u8/u16 narrowing boundaries (for value())        *)
(*  "runs"     long runs of consecutive fixed-size attributes whose total  *)
(*             crosses 255/256/257 and 65535/65536/65537, with and without *)
(*             a variable-length form before / after / inside the run      *)
(*  "line"     the line-table variant of the decoder: DWARF 5 line-program *)
(*             headers whose file-entry format uses every form (as a       *)
(*             vendor-defined field in front of the path: the path is      *)
(*             right iff the form consumed its size; as path / directory   *)
(*             index / size / timestamp / MD5 field: the value)            *)
(* For every case TLC also runs `skip_attributes` as coded (SkipCoded) and *)
(* asserts that it lands where reading lands - except where the coded      *)
(* accumulator overflows usize, which is reported as a design-level note   *)
(* (and is a violation on the implementation when replayed).               *)
(***************************************************************************)
EXTENDS Forms, Json
CONSTANTS Modes, FullEnc, MaxList, BigList
VARIABLE s

Encs == [ver : 2..5, fmt : {32, 64}, asz : {1, 2, 4, 8}, le : BOOLEAN]
Emit(c) == PrintT(<<"CASE", ToJson(c)>>)
Rep(b, n) == [i \in 1..n |-> b]
TailBytes == <<0, 0>>

(* ---- boundary payloads ------------------------------------------------- *)
FixedVals(n) == IF n = 0 THEN {<<>>}
                ELSE {Zero(n), One(n), Ones(n), [i \in 1..n |-> IF i = n THEN 128 ELSE 0],
                      [i \in 1..n |-> IF i = n THEN 127 ELSE 255], [i \in 1..n |-> i]}
P2(k) == Shl(One(8), k)
UlebPayloads == {[val |-> Zero(8), pad |-> 0], [val |-> One(8), pad |-> 0], [val |-> FromNat(127, 8), pad |-> 0],
                 [val |-> FromNat(128, 8), pad |-> 0], [val |-> FromNat(300, 8), pad |-> 0], [val |-> P2(32), pad |-> 0],
                 [val |-> P2(63), pad |-> 0], [val |-> Ones(8), pad |-> 0], [val |-> One(8), pad |-> 1],
                 [val |-> Zero(8), pad |-> 2], [val |-> FromNat(16383, 8), pad |-> 3]}
SlebVals == {Zero(8), Ones(8), FromNat(63, 8), FromInt(-64, 8), FromNat(64, 8), FromInt(-65, 8),
             P2(63), Sub(P2(63), One(8)), FromInt(-300, 8)}
Data(n) == [i \in 1..n |-> (i % 255) + 1]
BlockPayloads(sz) ==
    {[data |-> <<>>], [data |-> <<7>>], [data |-> Data(5)], [data |-> <<0, 0, 0>>]}
    \cup (IF sz = "block1" THEN {[data |-> Data(255)], [data |-> Data(3), claim |-> FromNat(255, 8)]}
          ELSE IF sz = "block2" THEN {[data |-> Data(300)], [data |-> Data(3), claim |-> FromNat(65535, 8)]}
          ELSE IF sz = "block4" THEN {[data |-> Data(300)], [data |-> Data(3), claim |-> <<255, 255, 255, 255, 0, 0, 0, 0>>]}
          ELSE {[data |-> Data(300)], [data |-> Data(3), claim |-> Ones(8)], [data |-> <<>>, claim |-> P2(63)],
                [data |-> Data(2), claim |-> P2(32)]})
StringPayloads == {[data |-> <<>>], [data |-> <<97>>], [data |-> Rep(120, 300)], [data |-> <<255, 1, 128>>]}
Payloads(c, enc) ==
    LET f == FormOf(c) IN
    CASE f.nm = "flag" -> {[val |-> <<0>>], [val |-> <<1>>], [val |-> <<2>>], [val |-> <<255>>]}
      [] f.nm = "implicit_const" -> {[val |-> v] : v \in SlebVals}
      [] f.sz = "unknown" -> {[val |-> <<>>]}
      [] IsFixed(f.sz) -> {[val |-> v] : v \in FixedVals(FixedSize(c, enc))}
      [] f.sz = "uleb" -> UlebPayloads
      [] f.sz = "sleb" -> {[val |-> v] : v \in SlebVals}
      [] f.sz = "string" -> StringPayloads
      [] f.sz \in {"block1", "block2", "block4", "blockleb"} -> BlockPayloads(f.sz)
(* one typical payload per form *)
Typical(c, enc) ==
    LET f == FormOf(c) IN
    CASE f.nm = "flag" -> [val |-> <<1>>]
      [] f.nm = "implicit_const" -> [val |-> FromInt(-65, 8)]
      [] IsFixed(f.sz) -> [val |-> [i \in 1..FixedSize(c, enc) |-> i + 16]]
      [] f.sz = "uleb" -> [val |-> FromNat(300, 8), pad |-> 0]
      [] f.sz = "sleb" -> [val |-> FromInt(-300, 8)]
      [] f.sz = "string" -> [data |-> <<104, 105>>]
      [] OTHER -> [data |-> Data(5)]

(* ---- case construction ------------------------------------------------- *)
RECURSIVE Sum(_)
Sum(q) == IF q = <<>> THEN 0 ELSE Head(q) + Sum(Tail(q))
FirstBad(attrs) == LET B == {i \in DOMAIN attrs : IllFormed(attrs[i])} IN IF B = {} THEN 0 ELSE SetMin(B)
(* forms as skip_attributes sees them: the abbreviation's forms *)
Case(kind, enc, attrs) ==
    LET h == [ver |-> enc.ver, fmt |-> enc.fmt, asz |-> enc.asz, ut |-> 1, le |-> enc.le, types |-> FALSE]
        decl == [code |-> <<1>>, tag |-> 17, hc |-> FALSE, attrs |-> [i \in DOMAIN attrs |-> SpecOf(attrs[i])]]
        abytes == EncAttrs(attrs, enc)
        body == <<1>> \o abytes \o TailBytes
        fb == FirstBad(attrs)
        lens == [i \in DOMAIN attrs |-> Len(EncAttr(attrs[i], enc))]
        coded == SkipCoded(abytes \o TailBytes, 1, [i \in DOMAIN attrs |-> attrs[i].form], enc)
        (* a list whose only defect is implicit_const below indirect may also be skipped as if it had no value bytes *)
        onlyImplicit == fb # 0 /\ \A i \in DOMAIN attrs : IllFormed(attrs[i]) => ImplicitUnderIndirect(attrs[i])
        expskip == IF fb = 0 THEN {[ok |-> TRUE, n |-> Len(abytes)]}
                   ELSE IF onlyImplicit THEN {[ok |-> FALSE], [ok |-> TRUE, n |-> Len(abytes)]}
                   ELSE {[ok |-> FALSE]}
        codedobs == IF coded.st = "ok" THEN [ok |-> TRUE, n |-> coded.pos - 1] ELSE [ok |-> FALSE] IN
    [t |-> kind, enc |-> enc, forms |-> [i \in DOMAIN attrs |-> attrs[i].form], names |-> [i \in DOMAIN attrs |-> attrs[i].name],
     info |-> EncUnitHeader(h, 0, Len(body)) \o body,
     abbrev |-> EncAbbrevTable(<<decl>>), le |-> enc.le,
     reads |-> [i \in 1..(IF fb = 0 THEN Len(attrs) ELSE fb) |->
                  IF i = fb THEN [err |-> TRUE] ELSE [vals |-> ExpRaw(attrs[i], enc), n |-> lens[i]]],
     skip |-> expskip,
     sizes |-> [i \in DOMAIN attrs |-> IF FormOf(attrs[i].form).sz = "indirect" THEN -1 ELSE FixedSize(attrs[i].form, enc)],
     (* design level: the skip machine as coded agrees with reading, unless its accumulator overflowed *)
     codedok |-> (codedobs \in expskip) \/ coded.ovf,
     ovf |-> coded.ovf, trunc |-> \E i \in DOMAIN attrs : Truncated(Inner(attrs[i].form, attrs[i].p).form, Inner(attrs[i].form, attrs[i].p).p)]
EmitCase(c) == /\ Assert(c.codedok, <<"skip_attributes as coded does not land where reading lands", c.forms, c.enc>>)
               /\ Emit(c)

NameFree == 28          \* DW_AT_const_value: no normalisation rule

(* ---- size-class representatives for lists ------------------------------ *)
A(name, nm, p) == [name |-> name, form |-> FormNamed(nm), p |-> p]
Reps(enc) == <<
    A(NameFree, "flag_present", [val |-> <<>>]),
    A(NameFree, "data1", [val |-> <<200>>]),
    A(NameFree, "strp", [val |-> [i \in 1..W(enc) |-> i]]),
    A(NameFree, "block1", [data |-> Data(3)]),
    A(NameFree, "block", [data |-> Data(2)]),
    A(NameFree, "string", [data |-> <<104, 105>>]),
    A(NameFree, "udata", [val |-> FromNat(300, 8), pad |-> 0]),
    A(NameFree, "indirect", [form |-> FormNamed("data2"), p |-> [val |-> <<1, 2>>]]),
    A(NameFree, "block", [data |-> <<9>>, claim |-> Ones(8)]),
    (* the larger alphabet *)
    A(NameFree, "addr", [val |-> [i \in 1..enc.asz |-> 255]]),
    A(NameFree, "data16", [val |-> [i \in 1..16 |-> i]]),
    A(NameFree, "implicit_const", [val |-> FromInt(-2, 8)]),
    A(NameFree, "indirect", [form |-> FormNamed("exprloc"), p |-> [data |-> Data(4)]]),
    A(NameFree, "block1", [data |-> <<9>>, claim |-> FromNat(255, 8)]),
    A(NameFree, "exprloc", [data |-> <<>>]),
    A(NameFree, "block4", [data |-> Data(1)]) >>
NReps == IF BigList THEN 16 ELSE 9
ListEncs == IF BigList THEN {e \in Encs : e.asz \in {4, 8} /\ e.ver \in {2, 5}}
            ELSE {[ver |-> 4, fmt |-> 32, asz |-> 8, le |-> TRUE], [ver |-> 5, fmt |-> 64, asz |-> 4, le |-> FALSE]}

(* ---- names with and without normalisation rules ------------------------- *)
(* every standard attribute code up to DW_AT_loclists_base (0x8c) and the vendor names with a meaning of their own *)
NormNames == (1..140) \cup {8193 (*MIPS_fde*), 8199 (*MIPS_linkage_name*), 8449 (*sf_names*), 8209 (*GNU_call_site_value*),
                            8473 (*GNU_macros*), 8496 (*GNU_dwo_name*), 8497 (*GNU_dwo_id*), 8498 (*GNU_ranges_base*),
                            8499 (*GNU_addr_base*), 8500 (*GNU_pubnames*), 8503 (*GNU_locviews*)}
(* every form (below DW_FORM_indirect only through the "indirect" sub-model; the unassigned code cannot be decoded) *)
NormForms == {f.nm : f \in {g \in FormTable : g.sz \notin {"indirect", "unknown"}}}
NormPayloads(c, enc) ==
    LET f == FormOf(c) IN
    CASE f.nm = "data1" -> {[val |-> <<255>>], [val |-> <<128>>]}
      [] f.nm = "data2" -> {[val |-> <<255, 0>>], [val |-> <<0, 1>>], [val |-> <<255, 255>>]}
      [] f.nm = "data4" -> {[val |-> <<255, 255, 0, 0>>], [val |-> <<0, 0, 1, 0>>], [val |-> <<255, 255, 255, 255>>]}
      [] f.nm = "data8" -> {[val |-> <<5, 0, 0, 0, 0, 0, 0, 0>>], [val |-> Ones(8)]}
      [] f.nm = "udata" -> {[val |-> FromNat(255, 8), pad |-> 0], [val |-> FromNat(256, 8), pad |-> 0], [val |-> Ones(8), pad |-> 0]}
      [] f.nm = "sdata" -> {[val |-> FromNat(5, 8)], [val |-> FromInt(-1, 8)], [val |-> FromNat(65536, 8)]}
      [] OTHER -> {Typical(c, enc)}
NormEncs == {[ver |-> 4, fmt |-> 32, asz |-> 8, le |-> TRUE]} \cup
            (IF FullEnc THEN {[ver |-> 3, fmt |-> 32, asz |-> 4, le |-> FALSE], [ver |-> 5, fmt |-> 64, asz |-> 8, le |-> TRUE],
                              [ver |-> 2, fmt |-> 64, asz |-> 4, le |-> TRUE]} ELSE {})

(* ---- the line-table variant (read/line.rs parse_attribute) ------------- *)
(* A DWARF 5 line-program header whose file-name entry format is            *)
(* <<(ctype1, form1), (ctype2, form2)>>; two file entries.  DW_LNCT_path 1,  *)
(* directory_index 2, timestamp 3, size 4, MD5 5, vendor 0x2001.            *)
EncLineUnit(enc, fmt2, files) ==
    LET pair(x) == UlebNat(x[1]) \o UlebNat(x[2])
        entry(f) == EncPayload(fmt2[1][2], f[1], enc) \o EncPayload(fmt2[2][2], f[2], enc)
        rest2 == <<1, 1, 1, 251, 14, 13>> \o <<0, 1, 1, 1, 1, 0, 0, 0, 1, 0, 0, 1>>
                 \o <<1>> \o pair(<<1, 8>>) \o <<1>> \o <<47, 0>>                    \* one directory "/" as DW_FORM_string
                 \o <<2>> \o pair(fmt2[1]) \o pair(fmt2[2]) \o <<2>> \o entry(files[1]) \o entry(files[2])
        prog == <<0, 1, 1>>                                                          \* DW_LNE_end_sequence
        hdr == Fixed(5, 2, enc.le) \o <<enc.asz, 0>> \o Fixed(Len(rest2), W(enc), enc.le) \o rest2 \o prog IN
    (IF enc.fmt = 64 THEN <<255, 255, 255, 255>> \o Fixed(Len(hdr), 8, enc.le) ELSE Fixed(Len(hdr), 4, enc.le)) \o hdr
(* forms DWARF 5 section 6.2.4.1 allows for a path; any form may describe a vendor-defined content type *)
PathForms == {"string", "line_strp", "strp", "strp_sup", "strx", "strx1", "strx2", "strx3", "strx4", "GNU_strp_alt", "GNU_str_index"}
(* the forms the line-table reader implements *)
LineForms == {"block1", "block2", "block4", "block", "data1", "data2", "data4", "data8", "data16", "udata", "sdata", "flag",
              "sec_offset", "string", "strp", "strp_sup", "GNU_strp_alt", "line_strp", "strx", "GNU_str_index", "strx1", "strx2",
              "strx3", "strx4"}
LineVal(c, p) == LET f == FormOf(c) IN
                 IF f.nm = "data16" THEN {[kind |-> "Block", v |-> p.val], [kind |-> "Data16", v |-> p.val]}
                 ELSE {[kind |-> f.kind, v |-> NumV(c, p)]}
Str(i) == [data |-> <<112, 48 + i>>]           \* "p1", "p2"
(* kind "skip": (vendor, F) then (path, string): the path is right iff F consumed its encoded size *)
LineSkipCase(enc, c, p1, p2) ==
    [t |-> "line", sub |-> "skip", enc |-> enc, forms |-> <<c>>, names |-> <<0>>, le |-> enc.le,
     line |-> EncLineUnit(enc, <<<<8193, c>>, <<1, 8>>>>, <<<<p1, Str(1)>>, <<p2, Str(2)>>>>),
     must |-> FormOf(c).nm \in LineForms,
     files |-> <<[path |-> {[kind |-> "String", v |-> Str(1).data]}], [path |-> {[kind |-> "String", v |-> Str(2).data]}]>>,
     codedok |-> TRUE, ovf |-> FALSE, trunc |-> FALSE]
(* kind "path": (path, F) then (directory_index, data1) *)
LinePathCase(enc, c, p1, p2) ==
    [t |-> "line", sub |-> "path", enc |-> enc, forms |-> <<c>>, names |-> <<0>>, le |-> enc.le,
     line |-> EncLineUnit(enc, <<<<1, c>>, <<2, 11>>>>, <<<<p1, [val |-> <<170>>]>>, <<p2, [val |-> <<187>>]>>>>),
     must |-> TRUE,
     files |-> <<[path |-> LineVal(c, p1), dir |-> FromNat(170, 8)], [path |-> LineVal(c, p2), dir |-> FromNat(187, 8)]>>,
     codedok |-> TRUE, ovf |-> FALSE, trunc |-> FALSE]
(* kind "md5": (path, string) then (MD5, data16); kind "num": (path, string) then (size / timestamp / directory_index, F) *)
LineMd5Case(enc, v1, v2) ==
    [t |-> "line", sub |-> "md5", enc |-> enc, forms |-> <<30>>, names |-> <<0>>, le |-> enc.le,
     line |-> EncLineUnit(enc, <<<<1, 8>>, <<5, 30>>>>, <<<<Str(1), [val |-> v1]>>, <<Str(2), [val |-> v2]>>>>),
     must |-> TRUE,
     files |-> <<[path |-> {[kind |-> "String", v |-> Str(1).data]}, md5 |-> Lay(v1, enc.le)],
                 [path |-> {[kind |-> "String", v |-> Str(2).data]}, md5 |-> Lay(v2, enc.le)]>>,
     codedok |-> TRUE, ovf |-> FALSE, trunc |-> FALSE]
LineNumCase(enc, ctype, c, p1, p2) ==
    LET key == <<"", "dir", "timestamp", "size">>[ctype] IN
    [t |-> "line", sub |-> key, enc |-> enc, forms |-> <<c>>, names |-> <<0>>, le |-> enc.le,
     line |-> EncLineUnit(enc, <<<<1, 8>>, <<ctype, c>>>>, <<<<Str(1), p1>>, <<Str(2), p2>>>>),
     must |-> TRUE,
     files |-> <<[path |-> {[kind |-> "String", v |-> Str(1).data]}] @@ (key :> NumV(c, p1)),
                 [path |-> {[kind |-> "String", v |-> Str(2).data]}] @@ (key :> NumV(c, p2))>>,
     codedok |-> TRUE, ovf |-> FALSE, trunc |-> FALSE]
WellFormedP(c, p) == ~Truncated(c, p)
TwoPayloads(c, enc) == LET P == {p \in Payloads(c, enc) : WellFormedP(c, p)} IN
                       {<<Typical(c, enc), p>> : p \in P} \cup {<<p, Typical(c, enc)>> : p \in P}

(* ---- long runs of fixed-size attributes ---------------------------------- *)
(* The skip machine adds up the sizes of consecutive fixed-size attributes   *)
(* and flushes the total at the next variable-length form.  These lists make *)
(* the running total cross 255/256/257 and 65535/65536/65537, alone, before   *)
(* and after a variable-length form, and split around one.                    *)
RunOf(nm, k, enc) == [i \in 1..k |-> A(NameFree, nm, Typical(FormNamed(nm), enc))]
(* fillers of 15, 16, 17 bytes *)
Filler(n, enc) == RunOf("data8", 1, enc) \o RunOf("data4", 1, enc) \o RunOf("data2", 1, enc) \o RunOf("data1", n - 14, enc)
Var(nm, enc) == <<A(NameFree, nm, Typical(FormNamed(nm), enc))>>
(* a CASE, so that only the requested list is built *)
NRunPatterns == 26
RunPattern(i, enc) ==
    CASE i = 1 -> RunOf("data16", 15, enc) \o Filler(15, enc)
      [] i = 2 -> RunOf("data16", 15, enc) \o Filler(16, enc)
      [] i = 3 -> RunOf("data16", 15, enc) \o Filler(17, enc)
      [] i = 4 -> RunOf("data16", 16, enc)
      [] i = 5 -> RunOf("data16", 17, enc)
      [] i = 6 -> RunOf("data8", 31, enc) \o RunOf("data4", 1, enc) \o RunOf("data2", 1, enc) \o RunOf("data1", 1, enc)
      [] i = 7 -> RunOf("data8", 32, enc)
      [] i = 8 -> RunOf("data8", 33, enc)
      [] i = 9 -> RunOf("ref8", 32, enc)
      [] i = 10 -> RunOf("addr", 256 \div enc.asz, enc)
      [] i = 11 -> RunOf("addr", (256 \div enc.asz) + 1, enc)
      [] i = 12 -> RunOf("data4", 64, enc)
      [] i = 13 -> RunOf("sec_offset", 64, enc)
      [] i = 14 -> RunOf("data1", 257, enc)
      [] i = 15 -> RunOf("data2", 128, enc)
      [] i = 16 -> RunOf("data16", 32, enc)
      [] i = 17 -> RunOf("data16", 16, enc) \o Var("udata", enc) \o RunOf("data16", 16, enc)
      [] i = 18 -> RunOf("data16", 15, enc) \o Filler(15, enc) \o Var("string", enc) \o RunOf("data1", 1, enc)
      [] i = 19 -> Var("block1", enc) \o RunOf("data16", 15, enc) \o Filler(17, enc)
      [] i = 20 -> RunOf("data16", 10, enc) \o Var("string", enc) \o RunOf("data16", 10, enc)
      [] i = 21 -> RunOf("data8", 33, enc) \o Var("exprloc", enc) \o RunOf("data8", 31, enc) \o Var("sdata", enc)
      [] i = 22 -> RunOf("data16", 16, enc) \o <<A(NameFree, "indirect", [form |-> FormNamed("data16"), p |-> Typical(FormNamed("data16"), enc)])>> \o RunOf("data16", 16, enc)
      [] i = 23 -> RunOf("data16", 4095, enc) \o Filler(15, enc)
      [] i = 24 -> RunOf("data16", 2048, enc) \o Filler(16, enc)
      [] i = 25 -> RunOf("data16", 4095, enc) \o Filler(17, enc)
      [] i = 26 -> RunOf("data16", 4096, enc) \o Var("udata", enc) \o RunOf("data16", 16, enc)
NSmallRuns == 22
RunEncs == {[ver |-> 4, fmt |-> 32, asz |-> 8, le |-> TRUE], [ver |-> 5, fmt |-> 64, asz |-> 4, le |-> FALSE]} \cup
           (IF FullEnc THEN {[ver |-> 2, fmt |-> 32, asz |-> 2, le |-> FALSE], [ver |-> 3, fmt |-> 64, asz |-> 1, le |-> TRUE]} ELSE {})

(* ---- exploration ------------------------------------------------------- *)
Init == s = [ph |-> "root"]
(* level 1: fan out over (sub-model, encoding) so that the workers share the load *)
Fan == /\ s.ph = "root"
       /\ \E m \in Modes : \E enc \in Encs :
            /\ (m \in {"lists"} => enc \in ListEncs)
            /\ (m \in {"norm"} => enc \in NormEncs)
            /\ (m \in {"legacy", "indirect"} => enc.asz = (IF enc.le THEN 8 ELSE 4))
            /\ (m = "line" => enc.ver = 5 /\ enc.asz = (IF enc.le THEN 8 ELSE 4))
            /\ m # "runs"
            /\ s' = [ph |-> "enc", m |-> m, enc |-> enc]
(* one state per (encoding, pattern) so that the long lists are spread over the workers; the 64 KiB *)
(* patterns only under the first encoding                                                            *)
FanRuns == /\ s.ph = "root" /\ "runs" \in Modes
           /\ \E enc \in RunEncs : \E i \in {24} :
                /\ (i > NSmallRuns => enc = [ver |-> 4, fmt |-> 32, asz |-> 8, le |-> TRUE] \/ FullEnc)
                /\ s' = [ph |-> "run", enc |-> enc, i |-> i]
GenRuns == /\ s.ph = "run"
           (* bound through a singleton set so that the list is built once, not at every reference *)
           /\ \E as \in {RunPattern(s.i, s.enc)} : EmitCase(Case("runs", s.enc, as))
           /\ s' = [ph |-> "done", k |-> <<"runs", s.enc, s.i>>]
EncDependent(c) == FormOf(c).sz \in {"asz", "refaddr"}
AszOk(c, enc) == FullEnc \/ EncDependent(c) \/ enc.asz = (IF enc.le THEN 8 ELSE 4)
RECURSIVE Tuples(_, _)
Tuples(n, k) == IF k = 0 THEN {<<>>} ELSE {Append(t, x) : t \in Tuples(n, k - 1), x \in 1..n}
Gen == /\ s.ph = "enc"
       /\ LET enc == s.enc IN
          CASE s.m = "single" ->
                 \E c \in FormCodes \ {FormNamed("indirect")} : \E p \in Payloads(c, enc) :
                    /\ AszOk(c, enc)
                    /\ EmitCase(Case("single", enc, <<[name |-> NameFree, form |-> c, p |-> p]>>))
                    /\ s' = [ph |-> "done", k |-> <<s.m, enc, c, p>>]
            [] s.m = "legacy" ->
                 \E nm \in {"data4", "data8"} : \E name \in LegacyPtrNames \cup {44 (*start_scope*), 121 (*macros*), 28 (*const_value*), 11 (*byte_size*)} :
                 \E v \in {1, 2} :
                    LET c == FormNamed(nm)
                        p == [val |-> IF v = 1 THEN [i \in 1..FixedSize(c, enc) |-> 16 * i] ELSE Ones(FixedSize(c, enc))] IN
                    /\ EmitCase(Case("legacy", enc, <<[name |-> name, form |-> c, p |-> p]>>))
                    /\ s' = [ph |-> "done", k |-> <<s.m, enc, nm, name, v>>]
            [] s.m = "indirect" ->
                 \E c \in FormCodes \ {FormNamed("indirect")} : \E depth \in {1, 2} :
                    LET inner == [form |-> c, p |-> Typical(c, enc)]
                        p == IF depth = 1 THEN inner ELSE [form |-> FormNamed("indirect"), p |-> inner] IN
                    /\ EmitCase(Case("indirect", enc, <<[name |-> NameFree, form |-> FormNamed("indirect"), p |-> p]>>))
                    /\ s' = [ph |-> "done", k |-> <<s.m, enc, c, depth>>]
            [] s.m = "lists" ->
                 \E k \in 1..MaxList : \E t \in Tuples(NReps, k) :
                    /\ EmitCase(Case("lists", enc, [i \in 1..k |-> Reps(enc)[t[i]]]))
                    /\ s' = [ph |-> "done", k |-> <<s.m, enc, t>>]
            [] s.m = "line" -> FALSE
            [] s.m = "runs" -> FALSE
            [] s.m = "norm" ->
                 \E name \in NormNames : \E nm \in NormForms : \E p \in NormPayloads(FormNamed(nm), enc) :
                    /\ EmitCase(Case("norm", enc, <<[name |-> name, form |-> FormNamed(nm), p |-> p]>>))
                    /\ s' = [ph |-> "done", k |-> <<s.m, enc, name, nm, p>>]
GenLine ==
    /\ s.ph = "enc" /\ s.m = "line"
    /\ LET enc == s.enc IN
       \/ \E c \in FormCodes \ {FormNamed("indirect"), FormNamed("implicit_const"), 48} : \E pp \in TwoPayloads(c, enc) :
             /\ Emit(LineSkipCase(enc, c, pp[1], pp[2]))
             /\ s' = [ph |-> "done", k |-> <<"line-skip", enc, c, pp>>]
       \/ \E c \in {f.c : f \in {g \in FormTable : g.nm \in PathForms}} : \E pp \in TwoPayloads(c, enc) :
             /\ Emit(LinePathCase(enc, c, pp[1], pp[2]))
             /\ s' = [ph |-> "done", k |-> <<"line-path", enc, c, pp>>]
       \/ \E v \in FixedVals(16) :
             /\ Emit(LineMd5Case(enc, v, [i \in 1..16 |-> 15 + i]))
             /\ s' = [ph |-> "done", k |-> <<"line-md5", enc, v>>]
       \/ \E x \in {<<2, "data1">>, <<2, "data2">>, <<2, "udata">>, <<3, "udata">>, <<3, "data4">>, <<3, "data8">>,
                      <<4, "udata">>, <<4, "data1">>, <<4, "data2">>, <<4, "data4">>, <<4, "data8">>} :
          \E pp \in TwoPayloads(FormNamed(x[2]), enc) :
             /\ Emit(LineNumCase(enc, x[1], FormNamed(x[2]), pp[1], pp[2]))
             /\ s' = [ph |-> "done", k |-> <<"line-num", enc, x, pp>>]
Next == Fan \/ Gen \/ GenLine \/ FanRuns \/ GenRuns
=============================================================================
